package ast

// BOUNDED conformance harness for the parts of package ast the contract verifier does not
// reach (never counted as proof): the native get_by_path behind Searcher, the lazy skip
// logic, and the Node mutators over chunked storage with dead slots (node.go), which the
// engine could not bring under contract (interior pointers stored into memory, several
// pointer shapes per local).  The reference is a plain ordered tree built with
// encoding/json's tokenizer (order and duplicates kept).
//
//	search (C14)  for every path of every enumerated document: Searcher.GetByPath on the
//	              text, Node.GetByPath on a lazy, a loaded and a fully loaded tree, Get /
//	              Index / IndexPair / Len / ForEach / Values / Properties and the plain views
//	              (Interface, Map, Array, Raw) address exactly the reference member; the
//	              first of duplicated keys wins; missing paths are reported as missing.
//	tree (C15)    every sequence of at most 3 operations (Set, Unset, Add, Pop,
//	              SetByIndex, UnsetByIndex, SortKeys, Load) on lazy and loaded objects /
//	              arrays of 0, 1, 3 and 18 members leaves exactly the members the plain tree
//	              has, in its order, as seen through Len, Get, Index, ForEach and
//	              MarshalJSON.
//
// Failing cases print "CONFORM-FAIL <case id> :: <what>", the number of cases
// "CONFORM-STATS test=<name> cases=<n>" (see engine/conform.go).

import (
	"bytes"
	"encoding/json"
	"fmt"
	"reflect"
	"sort"
	"strings"
	"testing"
)

var acSeen = map[string]bool{}
var acCount = map[string]int{}

func acFail(t *testing.T, id string, format string, args ...interface{}) {
	t.Fail()
	if acSeen[id] {
		return
	}
	acSeen[id] = true
	r := id
	if i := strings.IndexByte(id, ':'); i >= 0 {
		r = id[:i]
	}
	acCount[r]++
	if acCount[r] <= 40 {
		fmt.Printf("CONFORM-FAIL %s :: %s\n", id, fmt.Sprintf(format, args...))
	} else if acCount[r] == 41 {
		fmt.Printf("CONFORM-FAIL %s:more-than-40-failing-cases :: output cut\n", r)
	}
}

// ---- reference tree ----

type refPair struct {
	key string
	val *refNode
}

type refNode struct {
	raw   string // exact text
	kind  byte   // '{' '[' or 's' scalar
	elems []*refNode
	pairs []refPair
}

func refParse(raw string) *refNode {
	raw = strings.TrimSpace(raw)
	n := &refNode{raw: raw, kind: 's'}
	if raw == "" {
		return n
	}
	dec := json.NewDecoder(strings.NewReader(raw))
	switch raw[0] {
	case '{':
		n.kind = '{'
		dec.Token()
		for dec.More() {
			k, _ := dec.Token()
			var rv json.RawMessage
			if dec.Decode(&rv) != nil {
				panic("reference: bad document " + raw)
			}
			n.pairs = append(n.pairs, refPair{k.(string), refParse(string(rv))})
		}
	case '[':
		n.kind = '['
		dec.Token()
		for dec.More() {
			var rv json.RawMessage
			if dec.Decode(&rv) != nil {
				panic("reference: bad document " + raw)
			}
			n.elems = append(n.elems, refParse(string(rv)))
		}
	}
	return n
}

func (n *refNode) get(key string) *refNode {
	for _, p := range n.pairs {
		if p.key == key {
			return p.val
		}
	}
	return nil
}

// compact text of the reference node (members in order, duplicates kept)
func (n *refNode) text() string {
	switch n.kind {
	case '{':
		var sb strings.Builder
		sb.WriteByte('{')
		for i, p := range n.pairs {
			if i > 0 {
				sb.WriteByte(',')
			}
			k, _ := json.Marshal(p.key)
			sb.Write(k)
			sb.WriteByte(':')
			sb.WriteString(p.val.text())
		}
		sb.WriteByte('}')
		return sb.String()
	case '[':
		var sb strings.Builder
		sb.WriteByte('[')
		for i, e := range n.elems {
			if i > 0 {
				sb.WriteByte(',')
			}
			sb.WriteString(e.text())
		}
		sb.WriteByte(']')
		return sb.String()
	}
	return n.raw
}

func compact(s string) string {
	var b bytes.Buffer
	if json.Compact(&b, []byte(s)) != nil {
		return "<invalid:" + s + ">"
	}
	return b.String()
}

// ---- documents ----

func acDocs() []string {
	scalars := []string{`null`, `true`, `1`, `-2.5e3`, `"s"`, `"a\"b\\"`, `""`, `"é\n"`}
	keys := []string{`"a"`, `"b"`, `""`, `"a\"b"`, `"ké"`}
	var lvl [3][]string
	lvl[0] = scalars
	for d := 1; d <= 2; d++ {
		prev := lvl[d-1]
		pick := func(i int) string { return prev[i%len(prev)] }
		out := []string{`[]`, `{}`, `[ ]`, ` { } `}
		for i := 0; i < 10; i++ {
			out = append(out, `[`+pick(i)+`]`)
			out = append(out, `[`+pick(i)+`, `+pick(i+3)+`,`+pick(i+5)+` ]`)
			out = append(out, `{`+keys[i%len(keys)]+`:`+pick(i)+`}`)
			out = append(out, `{`+keys[i%len(keys)]+` : `+pick(i)+` , `+keys[(i+1)%len(keys)]+`:`+pick(i+2)+`,`+keys[(i+3)%len(keys)]+`:`+pick(i+7)+`}`)
		}
		// duplicated keys: the first one is the addressed one
		out = append(out, `{"a":`+pick(1)+`,"a":`+pick(2)+`,"b":`+pick(3)+`,"a":`+pick(4)+`}`)
		lvl[d] = append(append([]string{}, prev...), out...)
	}
	docs := append([]string{}, lvl[2]...)
	// wide containers: more members than one storage chunk (16) and than the index threshold
	for _, n := range []int{15, 16, 17, 33, 40} {
		var a, o []string
		for i := 0; i < n; i++ {
			a = append(a, lvl[1][i%len(lvl[1])])
			o = append(o, fmt.Sprintf(`"k%d":%s`, i, lvl[1][(i*7)%len(lvl[1])]))
		}
		docs = append(docs, `[`+strings.Join(a, ",")+`]`, `{`+strings.Join(o, ", ")+`}`)
		// with a duplicate of an early and of a late key
		docs = append(docs, `{`+strings.Join(o, ",")+`,"k1":"dup-early","k`+fmt.Sprint(n-1)+`":"dup-late"}`)
	}
	return docs
}

type acPath []interface{}

func (p acPath) String() string { return fmt.Sprint([]interface{}(p)) }

// all paths of the reference tree (first of duplicated keys only), plus missing ones
func acPaths(n *refNode, prefix acPath, out *[]acPath, miss *[]acPath) {
	*out = append(*out, append(acPath{}, prefix...))
	switch n.kind {
	case '{':
		seen := map[string]bool{}
		for _, p := range n.pairs {
			if seen[p.key] {
				continue
			}
			seen[p.key] = true
			acPaths(p.val, append(append(acPath{}, prefix...), p.key), out, miss)
		}
		// (an integer path element on an object addresses the i-th member: documented)
		*miss = append(*miss, append(append(acPath{}, prefix...), "no-such-key"), append(append(acPath{}, prefix...), len(n.pairs)))
	case '[':
		for i, e := range n.elems {
			acPaths(e, append(append(acPath{}, prefix...), i), out, miss)
		}
		// (a negative path element is documented to panic: not part of the domain)
		*miss = append(*miss, append(append(acPath{}, prefix...), len(n.elems)), append(append(acPath{}, prefix...), "a"))
	default:
		*miss = append(*miss, append(append(acPath{}, prefix...), 0), append(append(acPath{}, prefix...), "a"))
	}
}

func refAt(n *refNode, p acPath) *refNode {
	for _, s := range p {
		switch x := s.(type) {
		case string:
			if n.kind != '{' {
				return nil
			}
			n = n.get(x)
		case int:
			if n.kind != '[' || x < 0 || x >= len(n.elems) {
				return nil
			}
			n = n.elems[x]
		}
		if n == nil {
			return nil
		}
	}
	return n
}

func nodeText(n *Node) (string, error) {
	b, err := n.MarshalJSON()
	return string(b), err
}

func TestVerifConform_search(t *testing.T) {
	cases := 0
	for di, doc := range acDocs() {
		ref := refParse(doc)
		var paths, miss []acPath
		acPaths(ref, nil, &paths, &miss)
		roots := map[string]func() Node{
			"lazy":   func() Node { return NewRaw(doc) },
			"loaded": func() Node { n := NewRaw(doc); n.Load(); return n },
			"all":    func() Node { n := NewRaw(doc); n.LoadAll(); return n },
			"parsed": func() Node { n, _ := NewParser(doc).Parse(); return n },
		}
		for _, p := range paths {
			cases++
			want := refAt(ref, p)
			id := fmt.Sprintf("search:doc#%d%s", di, p)
			got, err := NewSearcher(doc).GetByPath(p...)
			if err != nil {
				acFail(t, id, "%s: Searcher.GetByPath reports %v", doc, err)
				continue
			}
			if raw, _ := got.Raw(); compact(raw) != compact(want.raw) {
				acFail(t, id, "%s: Searcher.GetByPath gives %s, the addressed value is %s", doc, raw, want.raw)
			}
			for name, mk := range roots {
				root := mk()
				n := root.GetByPath(p...)
				if !n.Exists() || n.Check() != nil {
					acFail(t, id, "%s: Node.GetByPath on a %s tree reports a missing value (%v)", doc, name, n.Check())
					continue
				}
				txt, err := nodeText(n)
				if err != nil || compact(txt) != compact(want.text()) {
					acFail(t, id, "%s: Node.GetByPath on a %s tree gives %s (%v), the addressed value is %s", doc, name, txt, err, want.text())
				}
				// the views of the addressed node
				switch want.kind {
				case '{':
					// (Len is documented to count only the parsed children: fully loaded trees only)
					if l, _ := n.Len(); name == "all" && l != len(want.pairs) {
						acFail(t, id, "%s: Len of the object on a %s tree is %d, it has %d members", doc, name, l, len(want.pairs))
					}
					for i, pr := range want.pairs {
						ip := n.IndexPair(i)
						if ip == nil || ip.Key != pr.key {
							acFail(t, id, "%s: IndexPair(%d) on a %s tree is %v, member %d has key %q", doc, i, name, ip, i, pr.key)
							continue
						}
						if tx, _ := nodeText(&ip.Value); compact(tx) != compact(pr.val.text()) {
							acFail(t, id, "%s: IndexPair(%d) on a %s tree holds %s, member %d is %s", doc, i, name, tx, i, pr.val.text())
						}
						g := n.Get(pr.key)
						first := want.get(pr.key)
						if tx, _ := nodeText(g); !g.Exists() || compact(tx) != compact(first.text()) {
							acFail(t, id, "%s: Get(%q) on a %s tree gives %s, the first such member is %s", doc, pr.key, name, tx, first.text())
						}
					}
					if n.Get("no-such-key").Exists() || n.IndexPair(len(want.pairs)) != nil || n.IndexPair(-1) != nil {
						acFail(t, id, "%s: a missing member of the object is reported as present on a %s tree", doc, name)
					}
					var keys []string
					n.ForEach(func(path Sequence, node *Node) bool { keys = append(keys, *path.Key); return true })
					var wk []string
					for _, pr := range want.pairs {
						wk = append(wk, pr.key)
					}
					if !reflect.DeepEqual(keys, wk) {
						acFail(t, id, "%s: ForEach on a %s tree visits %q, the members are %q", doc, name, keys, wk)
					}
				case '[':
					if l, _ := n.Len(); name == "all" && l != len(want.elems) {
						acFail(t, id, "%s: Len of the array on a %s tree is %d, it has %d elements", doc, name, l, len(want.elems))
					}
					for i, e := range want.elems {
						x := n.Index(i)
						if tx, _ := nodeText(x); !x.Exists() || compact(tx) != compact(e.text()) {
							acFail(t, id, "%s: Index(%d) on a %s tree gives %s, element %d is %s", doc, i, name, tx, i, e.text())
						}
					}
					if n.Index(len(want.elems)).Exists() || n.Index(-1).Exists() {
						acFail(t, id, "%s: a missing element of the array is reported as present on a %s tree", doc, name)
					}
					cnt := 0
					n.ForEach(func(path Sequence, node *Node) bool {
						if path.Index != cnt {
							cnt = -1 << 30
						}
						cnt++
						return true
					})
					if cnt != len(want.elems) {
						acFail(t, id, "%s: ForEach on a %s tree does not visit the %d elements in order", doc, name, len(want.elems))
					}
				}
				// Interface() against encoding/json on the member text (objects without
				// duplicated keys only: a Go map cannot show which duplicate was taken)
				if !strings.Contains(doc, `"dup-`) && !strings.Contains(doc, `"a":`) {
					var wi interface{}
					json.Unmarshal([]byte(want.raw), &wi)
					gi, err := n.Interface()
					if err != nil || !reflect.DeepEqual(gi, wi) {
						acFail(t, id, "%s: Interface() on a %s tree gives %#v (%v), encoding/json %#v", doc, name, gi, err, wi)
					}
				}
			}
		}
		for _, p := range miss {
			cases++
			id := fmt.Sprintf("search:doc#%d%s(missing)", di, p)
			if got, err := NewSearcher(doc).GetByPath(p...); err == nil {
				raw, _ := got.Raw()
				acFail(t, id, "%s: Searcher.GetByPath finds %s where nothing is addressed", doc, raw)
			}
			for name, mk := range roots {
				root := mk()
				if n := root.GetByPath(p...); n.Exists() {
					tx, _ := nodeText(n)
					acFail(t, id, "%s: Node.GetByPath on a %s tree finds %s where nothing is addressed", doc, name, tx)
				}
			}
		}
	}
	fmt.Printf("CONFORM-STATS test=search cases=%d\n", cases)
}

// ---- operations on a tree ----

type acOp struct {
	name string
	// applies the operation to the node and to the plain tree; returns a complaint when
	// the two disagree on the operation's own result
	do func(n *Node, m *refNode) string
}

func (m *refNode) setKey(key string, v *refNode) bool {
	for i := range m.pairs {
		if m.pairs[i].key == key {
			m.pairs[i].val = v
			return true
		}
	}
	m.pairs = append(m.pairs, refPair{key, v})
	return false
}

func (m *refNode) unsetKey(key string) bool {
	for i := range m.pairs {
		if m.pairs[i].key == key {
			m.pairs = append(m.pairs[:i:i], m.pairs[i+1:]...)
			return true
		}
	}
	return false
}

func acObjectOps() []acOp {
	var ops []acOp
	for _, key := range []string{"k0", "k1", "k17", "new", "new2"} {
		key := key
		ops = append(ops, acOp{"Set(" + key + ")", func(n *Node, m *refNode) string {
			ex, err := n.Set(key, NewNumber("7"))
			wex := m.setKey(key, &refNode{raw: "7", kind: 's'})
			if err != nil || ex != wex {
				return fmt.Sprintf("Set(%q) reports exists=%v, %v; the member exists=%v", key, ex, err, wex)
			}
			return ""
		}})
		ops = append(ops, acOp{"Unset(" + key + ")", func(n *Node, m *refNode) string {
			ex, err := n.Unset(key)
			wex := m.unsetKey(key)
			if err != nil || ex != wex {
				return fmt.Sprintf("Unset(%q) reports exists=%v, %v; the member exists=%v", key, ex, err, wex)
			}
			return ""
		}})
	}
	for _, idx := range []int{0, 1, 16} {
		idx := idx
		ops = append(ops, acOp{fmt.Sprintf("UnsetByIndex(%d)", idx), func(n *Node, m *refNode) string {
			ex, err := n.UnsetByIndex(idx)
			wex := idx < len(m.pairs)
			if wex {
				m.pairs = append(m.pairs[:idx:idx], m.pairs[idx+1:]...)
			}
			if ex != wex || (wex && err != nil) {
				return fmt.Sprintf("UnsetByIndex(%d) reports exists=%v, %v; the member exists=%v", idx, ex, err, wex)
			}
			return ""
		}})
	}
	ops = append(ops, acOp{"Pop", func(n *Node, m *refNode) string {
		err := n.Pop()
		if len(m.pairs) > 0 {
			m.pairs = m.pairs[:len(m.pairs)-1]
		}
		_ = err
		return ""
	}})
	ops = append(ops, acOp{"SortKeys", func(n *Node, m *refNode) string {
		if err := n.SortKeys(false); err != nil {
			return "SortKeys: " + err.Error()
		}
		sort.SliceStable(m.pairs, func(i, j int) bool { return m.pairs[i].key < m.pairs[j].key })
		return ""
	}})
	ops = append(ops, acOp{"Load", func(n *Node, m *refNode) string {
		if err := n.Load(); err != nil {
			return "Load: " + err.Error()
		}
		return ""
	}})
	return ops
}

func acArrayOps() []acOp {
	var ops []acOp
	ops = append(ops, acOp{"Add", func(n *Node, m *refNode) string {
		if err := n.Add(NewNumber("7")); err != nil {
			return "Add: " + err.Error()
		}
		m.elems = append(m.elems, &refNode{raw: "7", kind: 's'})
		return ""
	}})
	for _, idx := range []int{0, 1, 16, 17} {
		idx := idx
		ops = append(ops, acOp{fmt.Sprintf("SetByIndex(%d)", idx), func(n *Node, m *refNode) string {
			ex, err := n.SetByIndex(idx, NewNumber("8"))
			wex := idx < len(m.elems)
			if wex {
				m.elems[idx] = &refNode{raw: "8", kind: 's'}
			}
			if ex != wex || (wex && err != nil) {
				return fmt.Sprintf("SetByIndex(%d) reports exists=%v, %v; the element exists=%v", idx, ex, err, wex)
			}
			return ""
		}})
		ops = append(ops, acOp{fmt.Sprintf("UnsetByIndex(%d)", idx), func(n *Node, m *refNode) string {
			ex, err := n.UnsetByIndex(idx)
			wex := idx < len(m.elems)
			if wex {
				m.elems = append(m.elems[:idx:idx], m.elems[idx+1:]...)
			}
			if ex != wex || (wex && err != nil) {
				return fmt.Sprintf("UnsetByIndex(%d) reports exists=%v, %v; the element exists=%v", idx, ex, err, wex)
			}
			return ""
		}})
	}
	ops = append(ops, acOp{"Pop", func(n *Node, m *refNode) string {
		n.Pop()
		if len(m.elems) > 0 {
			m.elems = m.elems[:len(m.elems)-1]
		}
		return ""
	}})
	ops = append(ops, acOp{"Load", func(n *Node, m *refNode) string {
		if err := n.Load(); err != nil {
			return "Load: " + err.Error()
		}
		return ""
	}})
	return ops
}

// acSame compares what the node shows with the plain tree.
func acSame(n *Node, m *refNode) string {
	txt, err := nodeText(n)
	if err != nil {
		return "MarshalJSON: " + err.Error()
	}
	if compact(txt) != m.text() {
		return fmt.Sprintf("MarshalJSON gives %s, the tree is %s", txt, m.text())
	}
	l, err := n.Len()
	if m.kind == '{' {
		if err != nil || l != len(m.pairs) {
			return fmt.Sprintf("Len is %d (%v), the tree has %d members", l, err, len(m.pairs))
		}
		seen := map[string]bool{}
		for i, p := range m.pairs {
			ip := n.IndexPair(i)
			if ip == nil || ip.Key != p.key {
				return fmt.Sprintf("IndexPair(%d) is %v, member %d has key %q", i, ip, i, p.key)
			}
			if !seen[p.key] {
				seen[p.key] = true
				g := n.Get(p.key)
				if tx, _ := nodeText(g); !g.Exists() || compact(tx) != p.val.text() {
					return fmt.Sprintf("Get(%q) gives %s, the member is %s", p.key, tx, p.val.text())
				}
			}
		}
		for _, k := range []string{"k0", "k1", "k17", "new", "new2", "absent"} {
			if m.get(k) == nil && n.Get(k).Exists() {
				return fmt.Sprintf("Get(%q) finds a member the tree does not have", k)
			}
		}
		if n.IndexPair(len(m.pairs)) != nil {
			return fmt.Sprintf("IndexPair(%d) finds a member beyond the %d the tree has", len(m.pairs), len(m.pairs))
		}
		var keys, wk []string
		n.ForEach(func(path Sequence, node *Node) bool { keys = append(keys, *path.Key); return true })
		for _, p := range m.pairs {
			wk = append(wk, p.key)
		}
		if !reflect.DeepEqual(keys, wk) {
			return fmt.Sprintf("ForEach visits %q, the members are %q", keys, wk)
		}
	} else {
		if err != nil || l != len(m.elems) {
			return fmt.Sprintf("Len is %d (%v), the tree has %d elements", l, err, len(m.elems))
		}
		for i, e := range m.elems {
			x := n.Index(i)
			if tx, _ := nodeText(x); !x.Exists() || compact(tx) != e.text() {
				return fmt.Sprintf("Index(%d) gives %s, element %d is %s", i, tx, i, e.text())
			}
		}
		if n.Index(len(m.elems)).Exists() {
			return fmt.Sprintf("Index(%d) finds an element beyond the %d the tree has", len(m.elems), len(m.elems))
		}
	}
	return ""
}

func TestVerifConform_tree(t *testing.T) {
	cases := 0
	mkObj := func(n int) string {
		var o []string
		for i := 0; i < n; i++ {
			o = append(o, fmt.Sprintf(`"k%d":%d`, i, i))
		}
		return `{` + strings.Join(o, ",") + `}`
	}
	mkArr := func(n int) string {
		var a []string
		for i := 0; i < n; i++ {
			a = append(a, fmt.Sprint(i))
		}
		return `[` + strings.Join(a, ",") + `]`
	}
	run := func(kind string, doc string, ops []acOp, depth int) {
		var rec func(seq []int)
		rec = func(seq []int) {
			if len(seq) > 0 {
				for _, start := range []string{"lazy", "loaded"} {
					cases++
					n := NewRaw(doc)
					if start == "loaded" {
						n.Load()
					}
					m := refParse(doc)
					var names []string
					bad := ""
					for _, oi := range seq {
						names = append(names, ops[oi].name)
						if bad = ops[oi].do(&n, m); bad != "" {
							break
						}
						if bad = acSame(&n, m); bad != "" {
							break
						}
					}
					if bad != "" {
						acFail(t, fmt.Sprintf("tree:%s(%d members,%s)%s", kind, len(m.pairs)+len(m.elems), start, strings.Join(names, ";")), "%s after %s: %s", kind, strings.Join(names, "; "), bad)
					}
				}
			}
			if len(seq) == depth {
				return
			}
			for oi := range ops {
				rec(append(append([]int{}, seq...), oi))
			}
		}
		rec(nil)
	}
	for _, n := range []int{0, 1, 3, 18} {
		run("object", mkObj(n), acObjectOps(), 3)
		run("array", mkArr(n), acArrayOps(), 3)
	}
	fmt.Printf("CONFORM-STATS test=tree cases=%d\n", cases)
}
