package native

// BOUNDED conformance harness for the ASSUMED contracts of the pre-assembled native
// routines (never counted as proof; run by `gowp check <prop> --tier thorough` through
// `go test -overlay`, once per instruction-set variant).  It checks, on an exhaustive
// small domain plus fixed pseudo-random longer inputs, what the contracts in
// zz_verif_contracts.go assume and what the abstract spec functions are meant to be:
//
//	quote       output + restart offsets compose to the JSON quoting of the whole input,
//	            never writes beyond *dn, reads nothing that changes the result
//	html_escape same, against encoding/json.HTMLEscape
//	unquote     unquote(quote(s)) == s, output never longer than the input
//	f64toa      finite values print as strconv shortest round-trip does (value equality)
//	            and -0 prints as "-0"
//	validate_utf8 reported positions are ascending, inside the scanned range, and exactly
//	            the bytes unicode/utf8 rejects
//
//	vnumber     (through value) integer and floating literals convert to exactly the bits
//	            strconv.ParseInt / ParseFloat give, sign of zero included
//
// Every failing case is printed as "CONFORM-FAIL <case id> :: <what>" (the case id names
// the routine and the input, so the known-findings file can list single inputs); the
// number of cases is printed as "CONFORM-STATS test=<name> cases=<n>".
//
// Bound: all strings of length <= 4 over a 10-symbol alphabet of byte classes, all
// lengths 0..96 of 3 fixed pseudo-random strings (block boundaries of 16/32 bytes), every
// output capacity 0..len*6+8 in steps that force restarts.

import (
	"bytes"
	"encoding/json"
	"fmt"
	"hash/fnv"
	"math"
	"math/rand"
	"strconv"
	"strings"
	"testing"
	"unicode/utf8"
	"unsafe"

	"github.com/bytedance/sonic/internal/native/types"
)

var conformFails = map[string]int{} // printed failing cases per routine (capped)
var conformSeen = map[string]bool{}

func caseID(routine, in string) string {
	if len(in) <= 24 {
		return fmt.Sprintf("%s:%q", routine, in)
	}
	h := fnv.New32a()
	h.Write([]byte(in))
	return fmt.Sprintf("%s:len=%d#%08x", routine, len(in), h.Sum32())
}

func conformFail(t *testing.T, id string, format string, args ...interface{}) {
	t.Helper()
	t.Fail()
	if conformSeen[id] {
		return
	}
	conformSeen[id] = true
	routine := id
	if i := strings.IndexByte(id, ':'); i >= 0 {
		routine = id[:i]
	}
	conformFails[routine]++
	if conformFails[routine] <= 12 {
		fmt.Printf("CONFORM-FAIL %s :: %s\n", id, fmt.Sprintf(format, args...))
	}
	t.Fail()
}

var conformAlphabet = []string{"a", "\"", "\\", "<", "&", "\x01", "\n", " ", "é", "\xff"}

func conformInputs() []string {
	var out []string
	var rec func(prefix string, n int)
	rec = func(prefix string, n int) {
		out = append(out, prefix)
		if n == 0 {
			return
		}
		for _, a := range conformAlphabet {
			rec(prefix+a, n-1)
		}
	}
	rec("", 4)
	rnd := rand.New(rand.NewSource(20260923))
	for k := 0; k < 3; k++ {
		var sb []byte
		for len(sb) < 96 {
			sb = append(sb, conformAlphabet[rnd.Intn(len(conformAlphabet))]...)
		}
		for n := 0; n <= 96; n++ {
			out = append(out, string(sb[:n]))
		}
	}
	// more invalid bytes than the position table holds: forces validate_utf8 to stop early
	out = append(out, string(bytes.Repeat([]byte{0xff}, types.MAX_RECURSE+37)))
	out = append(out, string(bytes.Repeat([]byte("a\xffé"), types.MAX_RECURSE+5)))
	return out
}

// guarded returns a buffer of n usable bytes followed by a canary region.
func guarded(n int) ([]byte, []byte) {
	all := make([]byte, n+32)
	for i := range all {
		all[i] = 0xA5
	}
	return all[:n:n], all[n:]
}

func canaryIntact(c []byte) bool {
	for _, b := range c {
		if b != 0xA5 {
			return false
		}
	}
	return true
}

func strPtr(s string) unsafe.Pointer { return *(*unsafe.Pointer)(unsafe.Pointer(&s)) }

// driveRestart runs the restart protocol (negative result = ^consumed, grow and go on)
// with the given first capacity; it returns the concatenated output or a complaint.
func driveRestart(name, s string, firstCap int, call func(sp unsafe.Pointer, nb int, dp unsafe.Pointer, dn *int) int) ([]byte, string) {
	var out []byte
	pos := 0
	capn := firstCap
	for iter := 0; iter < 400; iter++ {
		buf, canary := guarded(capn)
		dn := capn
		var dp unsafe.Pointer
		if capn > 0 {
			dp = unsafe.Pointer(&buf[0])
		} else {
			dp = unsafe.Pointer(&canary[0]) // zero room: nothing may be written
		}
		in := s[pos:]
		ret := call(strPtr(in), len(in), dp, &dn)
		if !canaryIntact(canary) {
			return nil, fmt.Sprintf("%s wrote beyond the %d bytes it was given", name, capn)
		}
		if dn < 0 || dn > capn {
			return nil, fmt.Sprintf("%s reports %d bytes written into %d", name, dn, capn)
		}
		out = append(out, buf[:dn]...)
		if ret >= 0 {
			if ret != len(in) {
				return nil, fmt.Sprintf("%s reports success but consumed %d of %d", name, ret, len(in))
			}
			return out, ""
		}
		k := ^ret
		if k < 0 || k > len(in) {
			return nil, fmt.Sprintf("%s: restart offset %d outside the input", name, k)
		}
		pos += k
		capn = capn*2 + 1
	}
	return nil, name + ": no progress in 400 restarts"
}

func TestVerifConform_strings(t *testing.T) {
	cases := 0
	for _, s := range conformInputs() {
		for _, c0 := range []int{0, 1, 3, 7, len(s), len(s)*6 + 8} {
			cases++
			got, bad := driveRestart("quote", s, c0, func(sp unsafe.Pointer, nb int, dp unsafe.Pointer, dn *int) int {
				return Quote(sp, nb, dp, dn, 0)
			})
			if bad != "" {
				conformFail(t, caseID("quote", s), "first capacity %d: %s", c0, bad)
				continue
			}
			// the quoted text must be a JSON string body that decodes back to s
			if utf8.ValidString(s) {
				var back string
				if err := json.Unmarshal([]byte(`"`+string(got)+`"`), &back); err != nil || back != s {
					conformFail(t, caseID("quote", s), "first capacity %d: %q does not decode back (%v, %q)", c0, got, err, back)
					continue
				}
			}
			// unquote is the inverse and never longer than its input
			ob, oc := guarded(len(got))
			ep := -1
			var dp unsafe.Pointer
			if len(got) > 0 {
				dp = unsafe.Pointer(&ob[0])
			} else {
				dp = unsafe.Pointer(&oc[0])
			}
			n := Unquote(strPtr(string(got)), len(got), dp, &ep, 0)
			if !canaryIntact(oc) {
				conformFail(t, caseID("unquote", string(got)), "wrote beyond the input length")
			} else if n < 0 || n > len(got) || string(ob[:n]) != s {
				conformFail(t, caseID("unquote", string(got)), "= %d %q, want %q", n, ob[:max0(n)], s)
			}
		}
		// html_escape against encoding/json.HTMLEscape
		var hw bytes.Buffer
		json.HTMLEscape(&hw, []byte(s))
		for _, c0 := range []int{0, 1, 5, len(s), len(s)*6 + 8} {
			cases++
			got, bad := driveRestart("html_escape", s, c0, func(sp unsafe.Pointer, nb int, dp unsafe.Pointer, dn *int) int {
				return HTMLEscape(sp, nb, dp, dn)
			})
			if bad != "" {
				conformFail(t, caseID("html_escape", s), "first capacity %d: %s", c0, bad)
			} else if !bytes.Equal(got, hw.Bytes()) {
				conformFail(t, caseID("html_escape", s), "first capacity %d: %q, encoding/json: %q", c0, got, hw.Bytes())
			}
		}
		// validate_utf8: exactly the invalid bytes, ascending
		// (the contract requires *p < len(*s): the routine is never entered at the end)
		cases++
		if bad := conformUTF8(s); bad != "" {
			conformFail(t, caseID("validate_utf8", s), "%s", bad)
		}
	}
	fmt.Printf("CONFORM-STATS test=strings cases=%d\n", cases)
}

func conformUTF8(s string) string {
	m := types.NewStateMachine()
	defer types.FreeStateMachine(m)
	p := 0
	str := s
	var gotPos, wantPos []int
	for p < len(s) {
		m.Sp = 0
		p0 := p
		rc := ValidateUTF8(&str, &p, m)
		if p <= p0 || p > len(s) || (rc == 0 && p != len(s)) || (rc != 0 && (m.Sp == 0 || p >= len(s))) {
			return fmt.Sprintf("from %d returned %d at %d with %d positions", p0, rc, p, m.Sp)
		}
		if m.Sp < 0 || m.Sp > types.MAX_RECURSE || m.Sp > p-p0 {
			return fmt.Sprintf("%d positions in %d bytes", m.Sp, p-p0)
		}
		for i := 0; i < m.Sp; i++ {
			if m.Vt[i] < p0 || m.Vt[i] >= p {
				return fmt.Sprintf("position %d outside [%d,%d)", m.Vt[i], p0, p)
			}
			gotPos = append(gotPos, m.Vt[i])
		}
	}
	for i := 0; i < len(s); {
		r, sz := utf8.DecodeRuneInString(s[i:])
		if r == utf8.RuneError && sz == 1 {
			wantPos = append(wantPos, i)
		}
		i += sz
	}
	if fmt.Sprint(gotPos) != fmt.Sprint(wantPos) {
		if len(gotPos) > 8 {
			return fmt.Sprintf("%d invalid positions, unicode/utf8 finds %d", len(gotPos), len(wantPos))
		}
		return fmt.Sprintf("invalid positions %v, unicode/utf8 finds %v", gotPos, wantPos)
	}
	return ""
}

func max0(n int) int {
	if n < 0 {
		return 0
	}
	return n
}

func conformFloats() []float64 {
	vals := []float64{0, math.Copysign(0, -1), 1, -1, 0.1, 1e21, 1e-7, 123456789.125, math.MaxFloat64, math.SmallestNonzeroFloat64, math.MaxFloat32, 5e-324, 1.7976931348623157e308, 1e20, 1e-6, 9007199254740993, 0.000001, 123456789012345678}
	rnd := rand.New(rand.NewSource(7))
	for i := 0; i < 4000; i++ {
		vals = append(vals, math.Float64frombits(rnd.Uint64()))
	}
	for i := 0; i < 2000; i++ {
		vals = append(vals, float64(float32(rnd.NormFloat64()*1000)), float64(rnd.Int63n(1<<40))/1024)
	}
	return vals
}

func TestVerifConform_ftoa(t *testing.T) {
	cases := 0
	for _, v := range conformFloats() {
		if math.IsNaN(v) || math.IsInf(v, 0) {
			continue
		}
		cases++
		id := "f64toa:" + strconv.FormatUint(math.Float64bits(v), 16)
		buf, canary := guarded(32)
		n := F64toa(&buf[0], v)
		if !canaryIntact(canary) || n <= 0 || n > 32 {
			conformFail(t, id, "%v: %d bytes", v, n)
			continue
		}
		back, err := strconv.ParseFloat(string(buf[:n]), 64)
		if err != nil || math.Float64bits(back) != math.Float64bits(v) {
			conformFail(t, id, "%v prints as %q, which reads back as %v", v, buf[:n], back)
		} else if !json.Valid(buf[:n]) {
			conformFail(t, id, "%v prints as %q, not a JSON number", v, buf[:n])
		} else if want, _ := json.Marshal(v); string(want) != string(buf[:n]) {
			conformFail(t, id, "%v prints as %q, encoding/json: %s", v, buf[:n], want)
		}
		f := float32(v)
		if math.IsInf(float64(f), 0) {
			continue
		}
		cases++
		id = "f32toa:" + strconv.FormatUint(uint64(math.Float32bits(f)), 16)
		b32, c32 := guarded(32)
		n32 := F32toa(&b32[0], f)
		if !canaryIntact(c32) || n32 <= 0 || n32 > 32 {
			conformFail(t, id, "%v: %d bytes", f, n32)
			continue
		}
		back32, err := strconv.ParseFloat(string(b32[:n32]), 32)
		if err != nil || math.Float32bits(float32(back32)) != math.Float32bits(f) {
			conformFail(t, id, "%v prints as %q, which reads back as %v", f, b32[:n32], back32)
		} else if !json.Valid(b32[:n32]) {
			conformFail(t, id, "%v prints as %q, not a JSON number", f, b32[:n32])
		}
	}
	fmt.Printf("CONFORM-STATS test=ftoa cases=%d\n", cases)
}

func conformLiterals() []string {
	var out []string
	ints := []string{"0", "1", "9", "10", "123", "4294967296", "9007199254740993", "9223372036854775807", "9223372036854775808", "18446744073709551615", "18446744073709551616", "100000000000000000000", "123456789012345678901234567890"}
	fracs := []string{"", ".0", ".5", ".000", ".25", ".1", ".123456789012345678901", ".000000000000000000000000001"}
	exps := []string{"", "e0", "E+2", "e-3", "e22", "e23", "e308", "e309", "e-324", "e-400", "E400"}
	for _, sg := range []string{"", "-"} {
		for _, i := range ints {
			for _, f := range fracs {
				for _, e := range exps {
					out = append(out, sg+i+f+e)
				}
			}
		}
	}
	return out
}

func TestVerifConform_numbers(t *testing.T) {
	cases := 0
	for _, lit := range conformLiterals() {
		for _, sfx := range []string{"", " ", ",", "]"} {
			cases++
			src := lit + sfx
			id := caseID("vnumber", lit)
			var st types.JsonState
			dbuf := make([]byte, types.MaxDigitNums) // as the decoders provide it
			st.Dbuf, st.Dcap = &dbuf[0], len(dbuf)
			r := Value(strPtr(src), len(src), 0, &st, 0)
			wantF, errF := strconv.ParseFloat(lit, 64)
			switch st.Vt {
			case types.V_INTEGER:
				wantI, errI := strconv.ParseInt(lit, 10, 64)
				if errI != nil || st.Iv != wantI {
					conformFail(t, id, "integer %d, strconv: %d %v", st.Iv, wantI, errI)
				} else if math.Float64bits(st.Dv) != math.Float64bits(wantF) {
					conformFail(t, id, "integer literal: float value %v (bits %x), strconv.ParseFloat: %v (bits %x)", st.Dv, math.Float64bits(st.Dv), wantF, math.Float64bits(wantF))
				} else if r != len(lit) {
					conformFail(t, id, "stops at %d of %d", r, len(lit))
				}
			case types.V_DOUBLE:
				if errF != nil || math.Float64bits(st.Dv) != math.Float64bits(wantF) {
					conformFail(t, id, "float %v (bits %x), strconv.ParseFloat: %v (bits %x) %v", st.Dv, math.Float64bits(st.Dv), wantF, math.Float64bits(wantF), errF)
				} else if r != len(lit) {
					conformFail(t, id, "stops at %d of %d", r, len(lit))
				}
			default:
				// an error: only out-of-range literals may be refused
				if errF == nil {
					conformFail(t, id, "refused with %d, strconv.ParseFloat accepts it as %v", int64(st.Vt), wantF)
				}
			}
		}
	}
	fmt.Printf("CONFORM-STATS test=numbers cases=%d\n", cases)
}
