package sonic

// BOUNDED conformance harness for the code the JIT assemblers emit (never counted as
// proof).  The emitted machine code is outside the reach of the contract verifier: the
// contracts stop at the instruction streams the compilers produce.  This harness runs the
// public entry points on a type-directed enumeration (every basic kind x every tag option
// x boundary values, recursion, options) and compares with encoding/json, the reference
// the properties name.  It is run once per back-end configuration (JIT, VM encoder +
// alternative decoder, SSE-only), so agreement with the one reference also means the
// configurations agree with each other.
//
// Failing cases print "CONFORM-FAIL <case id> :: <what>", the number of cases
// "CONFORM-STATS test=<name> cases=<n>" (see engine/conform.go).

import (
	"bytes"
	"encoding/json"
	"fmt"
	"math"
	"reflect"
	"strings"
	"testing"
	"unsafe"
)

var ccSeen = map[string]bool{}
var ccCount = map[string]int{}

func ccFail(t *testing.T, id string, format string, args ...interface{}) {
	t.Fail()
	msg := fmt.Sprintf(format, args...)
	if ccSeen[id+msg] {
		return
	}
	ccSeen[id+msg] = true
	r := id
	if i := strings.IndexByte(id, ':'); i >= 0 {
		r = id[:i]
	}
	// every failing context is printed (the comparison between back ends looks at all of
	// them); the engine reports one violation per case id
	ccCount[r]++
	if ccCount[r] <= 400 {
		fmt.Printf("CONFORM-FAIL %s :: %s\n", id, msg)
	} else if ccCount[r] == 401 {
		fmt.Printf("CONFORM-FAIL %s:more-than-400-failing-cases :: output cut\n", r)
	}
}

type ccInner struct {
	X int16 `json:"x"`
}

// every basic kind, plain
type ccPlain struct {
	B    bool
	I8   int8
	I16  int16
	I32  int32
	I64  int64
	I    int
	U8   uint8
	U16  uint16
	U32  uint32
	U64  uint64
	U    uint
	Uptr uintptr
	F32  float32
	F64  float64
	S    string
	N    json.Number
	Bs   []byte
	P    *int16
	PF   *float32
	If   interface{}
	Sl   []int16
	SlS  []string
	M    map[string]int16
	A    [2]uint16
	St   ccInner
	PSt  *ccInner
	MB   map[string][20]int64 // element larger than 128 bytes: the slow map path
	MS   map[string]string
}

// the same kinds with omitempty
type ccOmit struct {
	B    bool              `json:",omitempty"`
	I8   int8              `json:",omitempty"`
	I16  int16             `json:",omitempty"`
	I32  int32             `json:",omitempty"`
	I64  int64             `json:",omitempty"`
	I    int               `json:",omitempty"`
	U8   uint8             `json:",omitempty"`
	U16  uint16            `json:",omitempty"`
	U32  uint32            `json:",omitempty"`
	U64  uint64            `json:",omitempty"`
	U    uint              `json:",omitempty"`
	Uptr uintptr           `json:",omitempty"`
	F32  float32           `json:",omitempty"`
	F64  float64           `json:",omitempty"`
	S    string            `json:",omitempty"`
	N    json.Number       `json:",omitempty"`
	Bs   []byte            `json:",omitempty"`
	P    *int16            `json:",omitempty"`
	PF   *float32          `json:",omitempty"`
	If   interface{}       `json:",omitempty"`
	Sl   []int16           `json:",omitempty"`
	SlS  []string          `json:",omitempty"`
	M    map[string]int16  `json:",omitempty"`
	A    [2]uint16         `json:",omitempty"`
	St   ccInner           `json:",omitempty"`
	PSt  *ccInner          `json:",omitempty"`
}

// the kinds that honour the ,string option
type ccStr struct {
	B    bool     `json:",string"`
	I8   int8     `json:",string"`
	I16  int16    `json:",string"`
	I32  int32    `json:",string"`
	I64  int64    `json:",string"`
	I    int      `json:",string"`
	U8   uint8    `json:",string"`
	U16  uint16   `json:",string"`
	U32  uint32   `json:",string"`
	U64  uint64   `json:",string"`
	U    uint     `json:",string"`
	Uptr uintptr  `json:",string"`
	F32  float32  `json:",string"`
	F64  float64  `json:",string"`
	S    string   `json:",string"`
	P    *int16   `json:",string"`
	PF   *float32 `json:",string"`
}

var ccInts = []int64{0, 1, -1, 127, 128, -128, -129, 255, 256, -256, 0x1200, 32767, 32768, -32768, 65535, 65536, 0x10000, 0x7f0000, 1 << 31, 1<<31 - 1, -(1 << 31), 1 << 32, 1<<32 - 1, 0x100000000, 1<<53 + 1, math.MaxInt64, math.MinInt64}
var ccUints = []uint64{0, 1, 255, 256, 0x1200, 65535, 65536, 0xab0000, 1<<32 - 1, 1 << 32, 1 << 63, math.MaxUint64}
var ccFloats = []float64{0, math.Copysign(0, -1), 1, -1.5, 0.1, 1e20, 1e21, 1e-6, 1e-7, 123456789, math.MaxFloat32, math.SmallestNonzeroFloat32, math.MaxFloat64, math.SmallestNonzeroFloat64, 3.4028235677973366e38, math.NaN(), math.Inf(1), math.Inf(-1)}
var ccStrings = []string{"", "a", "1", "-1", "1.5", "true", "\"", "\\", "<a&b>", "\x01\n", " ", "é", "\xff", "a\xffb", "0123456789abcdef0123456789abcdef<", "null"}
var ccBytes = [][]byte{nil, {}, {0}, {0xfb, 0xff, 0xbf}, {0xff, 0xff, 0xff, 0xfe}, []byte("hello world, hello world, hello!!"), {0xfb}, {0xfb, 0xf0}}

// ccValues lists, for a field of the given type, the boundary values to try.
func ccValues(ft reflect.Type) []reflect.Value {
	var out []reflect.Value
	add := func(v interface{}) { out = append(out, reflect.ValueOf(v).Convert(ft)) }
	switch ft.Kind() {
	case reflect.Bool:
		add(false)
		add(true)
	case reflect.Int, reflect.Int8, reflect.Int16, reflect.Int32, reflect.Int64:
		seen := map[int64]bool{}
		for _, v := range ccInts {
			x := reflect.New(ft).Elem()
			x.SetInt(v) // truncates to the width: distinct low parts matter
			if !seen[x.Int()] {
				seen[x.Int()] = true
				out = append(out, x)
			}
		}
	case reflect.Uint, reflect.Uint8, reflect.Uint16, reflect.Uint32, reflect.Uint64, reflect.Uintptr:
		seen := map[uint64]bool{}
		for _, v := range ccUints {
			x := reflect.New(ft).Elem()
			x.SetUint(v)
			if !seen[x.Uint()] {
				seen[x.Uint()] = true
				out = append(out, x)
			}
		}
	case reflect.Float32, reflect.Float64:
		for _, v := range ccFloats {
			x := reflect.New(ft).Elem()
			x.SetFloat(v)
			out = append(out, x)
		}
	case reflect.String:
		if ft == reflect.TypeOf(json.Number("")) {
			for _, s := range []string{"", "0", "-1", "1.5e3", "123456789012345678901234567890", "abc", "1 ", "01", "-", "1e", "0x1"} {
				add(json.Number(s))
			}
		} else {
			for _, s := range ccStrings {
				add(s)
			}
		}
	case reflect.Slice:
		switch ft.Elem().Kind() {
		case reflect.Uint8:
			for _, b := range ccBytes {
				add(b)
			}
		case reflect.Int16:
			add([]int16(nil))
			add([]int16{})
			add([]int16{0})
			add([]int16{256, -1, 0x1200})
		case reflect.String:
			add([]string(nil))
			add([]string{})
			add([]string{"", "<", "\xff"})
		}
	case reflect.Map:
		if ft.Elem().Kind() == reflect.Array {
			add(map[string][20]int64(nil))
			add(map[string][20]int64{"b": {1, 2}, "a": {}})
			break
		}
		if ft.Elem().Kind() == reflect.String {
			add(map[string]string(nil))
			add(map[string]string{"b": "<", "a": ""})
			break
		}
		add(map[string]int16(nil))
		add(map[string]int16{})
		add(map[string]int16{"b": 256, "a": -1, "<": 0, "": 1, "\xff": 2})
	case reflect.Array:
		add([2]uint16{})
		add([2]uint16{256, 65535})
	case reflect.Struct:
		add(ccInner{})
		add(ccInner{X: 256})
	case reflect.Interface:
		for _, v := range []interface{}{nil, 0, int16(256), uint8(0), 1.5, float32(0.1), "", "<", true, []interface{}{}, []interface{}{nil, 1, "a"}, map[string]interface{}{}, map[string]interface{}{"b": 1, "a": []int{1}}, ccInner{X: 256}, &ccInner{X: 512}, json.Number("12"), []byte{0xfb, 0xff}, math.NaN()} {
			x := reflect.New(ft).Elem()
			if v != nil {
				x.Set(reflect.ValueOf(v))
			}
			out = append(out, x)
		}
	case reflect.Ptr:
		out = append(out, reflect.Zero(ft))
		for _, v := range ccValues(ft.Elem()) {
			p := reflect.New(ft.Elem())
			p.Elem().Set(v)
			out = append(out, p)
		}
	}
	return out
}

type ccConfig struct {
	name  string
	api   API
	noEsc bool
}

func ccConfigs() []ccConfig {
	return []ccConfig{
		{"std", ConfigStd, false},
		{"std-noescape", Config{EscapeHTML: false, SortMapKeys: true, CompactMarshaler: true, CopyString: true, ValidateString: true}.Froze(), true},
	}
}

func ccStdMarshal(v interface{}, noEsc bool) ([]byte, error) {
	if !noEsc {
		return json.Marshal(v)
	}
	var b bytes.Buffer
	e := json.NewEncoder(&b)
	e.SetEscapeHTML(false)
	if err := e.Encode(v); err != nil {
		return nil, err
	}
	return bytes.TrimSuffix(b.Bytes(), []byte("\n")), nil
}

// ccCompareMarshal: the case id names the field kind, its tag option and the value; the
// context (inside the struct, behind a pointer, bare, in a slice, in a map) and the
// configuration are part of the message only, so one cause is one case.
func ccCompareMarshal(t *testing.T, id string, ctx string, v interface{}) {
	for _, c := range ccConfigs() {
		want, werr := ccStdMarshal(v, c.noEsc)
		if c.noEsc && werr == nil {
			// encoding/json escapes U+2028/U+2029 even with SetEscapeHTML(false); sonic's
			// EscapeHTML=false is documented to escape only what JSON requires
			want = bytes.ReplaceAll(bytes.ReplaceAll(want, []byte("\\u2028"), []byte("\u2028")), []byte("\\u2029"), []byte("\u2029"))
		}
		got, gerr := c.api.Marshal(v)
		if (werr == nil) != (gerr == nil) {
			ccFail(t, id, "[%s, %s] sonic succeeds=%v, encoding/json succeeds=%v -- %v / %v", ctx, c.name, gerr == nil, werr == nil, gerr, werr)
		} else if werr == nil && !bytes.Equal(got, want) {
			ccFail(t, id, "[%s, %s] sonic %.300q, encoding/json %.300q", ctx, c.name, got, want)
		}
	}
}

func ccTagOpt(f reflect.StructField) string {
	tag := f.Tag.Get("json")
	if i := strings.IndexByte(tag, ','); i >= 0 {
		return tag[i:]
	}
	return ""
}

func ccValueText(v reflect.Value) string {
	for v.Kind() == reflect.Ptr && !v.IsNil() {
		v = v.Elem()
	}
	s := fmt.Sprintf("%#v", v.Interface())
	if len(s) > 48 {
		s = s[:48] + "..."
	}
	return s
}

type ccNestIn struct {
	X int            `json:",omitempty"`
	Y []int          `json:",omitempty"`
	Z map[string]int `json:",omitempty"`
	W string         `json:",omitempty"`
}

type ccNest struct {
	A *ccNestIn `json:",omitempty"`
	L []ccNestIn
	M map[string]ccNestIn
	B int `json:",omitempty"`
	C ccNestIn
	D [][]int
	E map[string]map[string]int
	F interface{}
}

// pointer-shaped ("direct interface") types at recursion and interface boundaries
type ccPS struct {
	P *int16
}

type ccDirect struct {
	A    [1]*int16
	S    ccPS
	M    [1]map[string]int
	AA   [1][1]*int16
	AS   [1]ccPS
	F    [1]func() `json:"-"`
	Next *ccDirect   `json:",omitempty"`
	Kids []ccDirect  `json:",omitempty"`
	I    interface{} `json:",omitempty"`
}

type ccOnlyArr struct {
	A [1]*ccOnlyArr
}

type ccOnlyPS struct {
	S struct{ P *ccOnlyPS }
}

type ccRecF struct {
	V    float64            `json:"v"`
	Next *ccRecF            `json:"next,omitempty"`
	Kids []ccRecF           `json:"kids,omitempty"`
	M    map[string]ccRecF  `json:"m,omitempty"`
}

type ccRecP struct {
	V    *float64           `json:"v"`
	Next *ccRecP            `json:"next,omitempty"`
	Kids []ccRecP           `json:"kids,omitempty"`
	M    map[string]ccRecP  `json:"m,omitempty"`
}

// ccRec builds the same shape twice: with NaN at position `at` (counting nodes) as a
// float64 and as a nil *float64 (what EncodeNullForInfOrNan must print).
func ccRec(shape string, at int) (ccRecF, ccRecP) {
	n := 0
	var build func(s string) (ccRecF, ccRecP)
	build = func(s string) (ccRecF, ccRecP) {
		var f ccRecF
		var p ccRecP
		val := float64(n) + 0.5
		if n == at {
			f.V = math.NaN()
		} else {
			f.V = val
			p.V = &val
		}
		n++
		if s == "" {
			return f, p
		}
		cf, cp := build(s[1:])
		switch s[0] {
		case 'n':
			f.Next, p.Next = &cf, &cp
		case 'k':
			f.Kids, p.Kids = []ccRecF{cf}, []ccRecP{cp}
		case 'm':
			f.M, p.M = map[string]ccRecF{"k": cf}, map[string]ccRecP{"k": cp}
		}
		return f, p
	}
	return build(shape)
}

func TestVerifConform_encode(t *testing.T) {
	cases := 0
	for _, proto := range []interface{}{ccPlain{}, ccOmit{}, ccStr{}} {
		st := reflect.TypeOf(proto)
		for i := 0; i < st.NumField(); i++ {
			f := st.Field(i)
			for k, fv := range ccValues(f.Type) {
				v := reflect.New(st).Elem()
				v.Field(i).Set(fv)
				_ = k
				id := fmt.Sprintf("encode:%s%s=%s", strings.TrimPrefix(f.Type.String(), "*"), ccTagOpt(f), ccValueText(fv))
				cases++
				ccCompareMarshal(t, id, "field "+f.Name+" of "+st.Name(), v.Interface())
				cases++
				ccCompareMarshal(t, id, "field "+f.Name+" of *"+st.Name(), v.Addr().Interface())
				if st.Name() != "ccPlain" {
					continue
				}
				// the bare value, in a slice and as a map element
				cases++
				ccCompareMarshal(t, id, "bare", fv.Interface())
				sl := reflect.MakeSlice(reflect.SliceOf(f.Type), 2, 2)
				sl.Index(1).Set(fv)
				cases++
				ccCompareMarshal(t, id, "slice element", sl.Interface())
				m := reflect.MakeMap(reflect.MapOf(reflect.TypeOf(""), f.Type))
				m.SetMapIndex(reflect.ValueOf("k"), fv)
				cases++
				ccCompareMarshal(t, id, "map element", m.Interface())
			}
		}
	}
	// nesting: empty / non-empty members at the start, in the middle and at the end of
	// nested objects, arrays and maps (commas, omitted members, frames of the encoder)
	var inner []ccNestIn
	for b := 0; b < 16; b++ {
		var in ccNestIn
		if b&1 != 0 {
			in.X = 256
		}
		if b&2 != 0 {
			in.Y = []int{1, 2}
		}
		if b&4 != 0 {
			in.Z = map[string]int{"z": 1}
		}
		if b&8 != 0 {
			in.W = "w"
		}
		inner = append(inner, in)
	}
	for i, v1 := range inner {
		for j, v2 := range inner {
			cases++
			n := ccNest{L: []ccNestIn{v1, v2}, M: map[string]ccNestIn{"a": v1, "b": v2}, B: (i + j) % 2, C: v2,
				D: [][]int{{}, {i}, nil, {i, j}}, E: map[string]map[string]int{"p": {}, "q": {"r": j}}, F: []interface{}{v1, &v2, nil}}
			if i%3 != 0 {
				c := v1
				n.A = &c
			}
			ccCompareMarshal(t, fmt.Sprintf("encode:nested#%d/%d", i, j), "ccNest", n)
		}
	}
	// map keys: every key kind encoding/json allows, and enough keys for every stage of
	// the key sort
	for _, m := range []interface{}{
		map[uint64]string{0: "a", 1: "b", 1 << 63: "c", math.MaxUint64: "d", 10: "e", 9: "f"},
		map[int64]string{math.MinInt64: "a", -1: "b", 0: "c", math.MaxInt64: "d", 10: "e", 9: "f", -10: "g"},
		map[int8]int{-128: 1, -1: 2, 0: 3, 127: 4},
		map[uint8]int{0: 1, 255: 2, 128: 3, 9: 4, 10: 5},
		map[uint16]bool{256: true, 65535: false},
		map[int]interface{}{-1: nil, 1 << 40: 1},
		map[uintptr]int{1 << 63: 1, 2: 2},
		map[json.Number]int{"1": 1, "a": 2, "": 3},
	} {
		cases++
		ccCompareMarshal(t, fmt.Sprintf("encode:keys(%T)", m), "map", m)
	}
	for _, n := range []int{2, 11, 12, 13, 24, 50, 300, 2500} {
		for _, gen := range []struct {
			name string
			f    func(i int) string
		}{
			{"hashed", func(i int) string { return fmt.Sprintf("%x", uint32(i+1)*2654435761) }},
			{"descending", func(i int) string { return fmt.Sprintf("k%06d", 999999-i) }},
			{"prefix-lengths", func(i int) string { return strings.Repeat("a", i%40) + fmt.Sprint(i) }},
			{"long-common-prefix", func(i int) string { return "commonprefix-commonprefix-" + fmt.Sprintf("%x", uint32(i+7)*40503) }},
			// (0x08 and 0x0c are left out: encoding/json spells them \b, \f since Go 1.22 and
			// \u0008, \u000c before; sonic keeps the older spelling)
			{"bytes", func(i int) string {
				b := []byte{byte(i * 37), byte(i >> 3), byte(i)}
				for k := range b {
					if b[k] == 8 || b[k] == 12 {
						b[k] = 'x'
					}
				}
				return string(b)
			}},
		} {
			m := map[string]int{}
			for i := 0; i < n; i++ {
				m[gen.f(i)] = i
			}
			cases++
			ccCompareMarshal(t, fmt.Sprintf("encode:map-of-%d-%s-keys", n, gen.name), "map[string]int", m)
		}
	}
	fmt.Printf("CONFORM-STATS test=encode cases=%d\n", cases)
}

func TestVerifConform_options(t *testing.T) {
	cases := 0
	x := int16(256)
	mkDirect := func(fill bool) ccDirect {
		var d ccDirect
		if fill {
			d.A[0], d.S.P, d.AA[0][0], d.AS[0].P = &x, &x, &x, &x
			d.M[0] = map[string]int{"k": 1}
		}
		return d
	}
	for _, fill := range []bool{false, true} {
		d := mkDirect(fill)
		in := mkDirect(!fill)
		for k, iv := range []interface{}{nil, d.A, d.S, d.M, d.AA, d.AS, &d.A, &d.S, in, &in, [1]*int16{&x}, ccPS{&x}, [1][1]*int16{{nil}}, [1]map[string]int{nil}} {
			cases++
			v := mkDirect(fill)
			v.I = iv
			n := mkDirect(!fill)
			n.I = iv
			v.Next = &n
			v.Kids = []ccDirect{n, mkDirect(fill)}
			ccCompareMarshal(t, fmt.Sprintf("encode:direct-iface(fill=%v)#%d", fill, k), "ccDirect", v)
			ccCompareMarshal(t, fmt.Sprintf("encode:direct-iface(fill=%v)#%d", fill, k), "*ccDirect", &v)
			ccCompareMarshal(t, fmt.Sprintf("encode:direct-iface(fill=%v)#%d", fill, k), "bare interface value", iv)
		}
	}
	oa := ccOnlyArr{A: [1]*ccOnlyArr{{A: [1]*ccOnlyArr{{}}}}}
	ops := ccOnlyPS{}
	ops.S.P = &ccOnlyPS{}
	ops.S.P.S.P = &ccOnlyPS{}
	for k, v := range []interface{}{oa, &oa, []ccOnlyArr{oa}, map[string]ccOnlyArr{"k": oa}, ops, &ops, []ccOnlyPS{ops}, map[string]ccOnlyPS{"k": ops}, []interface{}{oa, ops}} {
		cases++
		ccCompareMarshal(t, fmt.Sprintf("encode:recursive-direct#%d", k), fmt.Sprintf("%T", v), v)
	}
	// recursion boundaries and the option word: EncodeNullForInfOrNan prints null exactly
	// where the value is not finite, at every depth and through every kind of edge
	nullForNaN := Config{EscapeHTML: true, SortMapKeys: true, CompactMarshaler: true, CopyString: true, ValidateString: true, EncodeNullForInfOrNan: true}.Froze()
	for _, shape := range []string{"", "n", "k", "m", "nn", "nk", "kn", "mn", "nm", "nnn", "knm", "nnnn", "kkkk", "nnnnnn"} {
		for at := -1; at <= len(shape); at++ {
			cases++
			f, p := ccRec(shape, at)
			id := fmt.Sprintf("encode:rec(%s)nan@%d", shape, at)
			want, werr := json.Marshal(p)
			got, gerr := nullForNaN.Marshal(f)
			if werr != nil || gerr != nil || !bytes.Equal(got, want) {
				ccFail(t, id, "[EncodeNullForInfOrNan] sonic %.200q %v, want %.200q %v", got, gerr, want, werr)
			}
			ccCompareMarshal(t, id, "value", f)
			ccCompareMarshal(t, id, "pointer", &f)
		}
	}
	fmt.Printf("CONFORM-STATS test=options cases=%d\n", cases)
}

// raw JSON values tried for every destination field
var ccRaws = []string{
	"0", "1", "-1", "127", "128", "-128", "-129", "255", "256", "-256", "32767", "32768", "-32768", "-32769", "65535", "65536",
	"2147483647", "2147483648", "-2147483648", "-2147483649", "4294967295", "4294967296",
	"9223372036854775807", "9223372036854775808", "-9223372036854775808", "-9223372036854775809", "18446744073709551615", "18446744073709551616",
	"1.0", "1.5", "1e2", "1E-2", "-0.0", "3.4028235e38", "3.4028235677973366e38", "3.4028236e38", "1e39", "1.000000059604644775390625", "1.000000059604644775390625000000000001", "1.00000005960464477539062499999999999", "7.038531e-26", "1.00000017881393432617187499", "1e308", "1e309", "1e-400", "01", "1.", ".5", "-", "+1", "1e", "0x10",
	`""`, `"a"`, `"1"`, `"-1"`, `"128"`, `"255"`, `"256"`, `"32768"`, `"65535"`, `"65536"`, `"1.5"`, `"3.4028235677973366e38"`, `"1e39"`, `" 1"`, `"1 "`, `"true"`, `"false"`, `"null"`, `"\"a\""`, `"\"1\""`,
	`"1`, `1"`, `"a`, `"é\n"`, `"\ud800"`, `"𐀀"`, `"\udc00x"`, `"\x"`, "\"\xff\"", "\"a\x01\"", `"aGVsbG8="`, `"aGVsbG8"`, `"+/8="`, `"-_8="`, `"!!!!"`,
	"null", "true", "false", "tru", "nul", "[]", "[1]", "[1,2]", "[1,2,3]", "[256,\"a\"]", "[1,]", "[", "{}", `{"x":256}`, `{"x":"1"}`, `{"X":7,"x":8}`, `{"a":1,"a":2}`, `{"x":1,}`, `{"x"}`, "{", `{"key":[1,2],"other":[]}`, `{"key":"value","k2":"a\"b","0123456789abcdef0123456789abcdef":"0123456789abcdef0123456789abcdef"}`,
}

func ccEqual(a, b interface{}) bool {
	av, bv := reflect.ValueOf(a), reflect.ValueOf(b)
	return ccDeepEq(av, bv)
}

// ccDeepEq is reflect.DeepEqual with floats compared by bit pattern (NaN never arises
// from decoding; the sign of zero matters).
func ccDeepEq(a, b reflect.Value) bool {
	if a.IsValid() != b.IsValid() {
		return false
	}
	if !a.IsValid() {
		return true
	}
	if a.Type() != b.Type() {
		return false
	}
	switch a.Kind() {
	case reflect.Float32, reflect.Float64:
		return math.Float64bits(a.Float()) == math.Float64bits(b.Float())
	case reflect.Ptr, reflect.Interface:
		if a.IsNil() || b.IsNil() {
			return a.IsNil() == b.IsNil()
		}
		return ccDeepEq(a.Elem(), b.Elem())
	case reflect.Struct:
		for i := 0; i < a.NumField(); i++ {
			if !ccDeepEq(a.Field(i), b.Field(i)) {
				return false
			}
		}
		return true
	case reflect.Slice:
		if a.IsNil() != b.IsNil() || a.Len() != b.Len() {
			return false
		}
		for i := 0; i < a.Len(); i++ {
			if !ccDeepEq(a.Index(i), b.Index(i)) {
				return false
			}
		}
		return true
	case reflect.Array:
		for i := 0; i < a.Len(); i++ {
			if !ccDeepEq(a.Index(i), b.Index(i)) {
				return false
			}
		}
		return true
	case reflect.Map:
		if a.IsNil() != b.IsNil() || a.Len() != b.Len() {
			return false
		}
		for _, k := range a.MapKeys() {
			bv := b.MapIndex(k)
			if !bv.IsValid() || !ccDeepEq(a.MapIndex(k), bv) {
				return false
			}
		}
		return true
	default:
		return reflect.DeepEqual(a.Interface(), b.Interface())
	}
}

var ccUseNumber = Config{EscapeHTML: true, SortMapKeys: true, CompactMarshaler: true, CopyString: true, ValidateString: true, UseNumber: true}.Froze()
var ccNoCopy = Config{EscapeHTML: true, SortMapKeys: true, CompactMarshaler: true, ValidateString: true}.Froze()
var ccUnicodeErrors = Config{EscapeHTML: true, SortMapKeys: true, CompactMarshaler: true, CopyString: true, ValidateString: true, UseUnicodeErrors: true}.Froze()

// ccHoldsText: destinations that store the decoded text of a JSON string (so that a lone
// surrogate escape must be reported with UseUnicodeErrors).
func ccHoldsText(ty reflect.Type) bool {
	switch ty.Kind() {
	case reflect.String:
		return ty != reflect.TypeOf(json.Number(""))
	case reflect.Interface:
		return true
	case reflect.Ptr, reflect.Slice, reflect.Array:
		if ty.Elem().Kind() == reflect.Uint8 {
			return false
		}
		return ccHoldsText(ty.Elem())
	case reflect.Map:
		return ccHoldsText(ty.Elem())
	}
	return false
}

func ccCompareUnmarshal(t *testing.T, id string, ctx string, ty reflect.Type, doc string, useNumber bool) {
	ccCompareUnmarshalPre(t, id, ctx, ty, "", doc, useNumber)
}

// ccCompareUnmarshalPre: with pre != "" both destinations are first filled (by
// encoding/json) from pre, so the decoders run into a populated value.
func ccCompareUnmarshalPre(t *testing.T, id string, ctx string, ty reflect.Type, pre string, doc string, useNumber bool) {
	want := reflect.New(ty)
	got := reflect.New(ty)
	if pre != "" {
		if json.Unmarshal([]byte(pre), want.Interface()) != nil || json.Unmarshal([]byte(pre), got.Interface()) != nil {
			return
		}
		ctx += ", destination already holding " + pre
	}
	var werr, gerr error
	if useNumber {
		d := json.NewDecoder(strings.NewReader(doc))
		d.UseNumber()
		werr = d.Decode(want.Interface())
		if werr == nil && d.More() {
			werr = fmt.Errorf("trailing data")
		}
		gerr = ccUseNumber.UnmarshalFromString(doc, got.Interface())
	} else {
		werr = json.Unmarshal([]byte(doc), want.Interface())
		gerr = ConfigStd.UnmarshalFromString(doc, got.Interface())
	}
	if pre == "" {
		// ownership (CopyString is part of both configurations): the result must not change
		// when the caller overwrites the input buffer afterwards
		cfg := ConfigStd
		if useNumber {
			cfg = ccUseNumber
		}
		buf := []byte(doc)
		got2 := reflect.New(ty)
		// (a string that shares the caller's bytes, as UnmarshalFromString is used for zero-copy input)
		if err2 := cfg.UnmarshalFromString(*(*string)(unsafe.Pointer(&buf)), got2.Interface()); (err2 == nil) != (gerr == nil) {
			ccFail(t, "ownership:"+strings.TrimPrefix(strings.TrimPrefix(id, "decode:"), "sizes:"), "[%s] %s: accepts=%v from a shared buffer, accepts=%v from a string", ctx, doc, err2 == nil, gerr == nil)
		} else if err2 == nil {
			for i := range buf {
				buf[i] = '#'
			}
			if !ccDeepEq(got.Elem(), got2.Elem()) {
				gj, _ := json.Marshal(got2.Interface())
				ccFail(t, "ownership:"+strings.TrimPrefix(strings.TrimPrefix(id, "decode:"), "sizes:"), "[%s] %s: the decoded value changes when the input buffer is overwritten: %.300s", ctx, doc, gj)
			}
		}
	}
	if !useNumber {
		// without CopyString (sonic's default configuration) strings may refer to the input,
		// but while the input lives the decoded value is the same
		nid := "nocopy:" + strings.TrimPrefix(strings.TrimPrefix(id, "decode:"), "sizes:")
		got4 := reflect.New(ty)
		if pre != "" {
			json.Unmarshal([]byte(pre), got4.Interface())
		}
		err4 := ccNoCopy.UnmarshalFromString(doc, got4.Interface())
		if (err4 == nil) != (gerr == nil) {
			ccFail(t, nid, "[%s] %s: accepts=%v without CopyString, accepts=%v with it -- %v", ctx, doc, err4 == nil, gerr == nil, err4)
		} else if err4 == nil && !ccDeepEq(got.Elem(), got4.Elem()) {
			gj, _ := json.Marshal(got4.Interface())
			ccFail(t, nid, "[%s] %s: without CopyString sonic decodes it as %.300s", ctx, doc, gj)
		}
	}
	if !useNumber && pre == "" {
		// UseUnicodeErrors: a lone surrogate escape is an error, nothing else changes
		uid := "unicode-errors:" + strings.TrimPrefix(strings.TrimPrefix(id, "decode:"), "sizes:")
		got3 := reflect.New(ty)
		err3 := ccUnicodeErrors.UnmarshalFromString(doc, got3.Interface())
		lone := strings.Contains(doc, `\ud800"`) || strings.Contains(doc, `\udc00x`)
		// (the reference here is sonic without the option: the option changes nothing else)
		switch {
		case lone && gerr == nil && ccHoldsText(ty):
			if err3 == nil {
				ccFail(t, uid, "[%s] %s: accepted with UseUnicodeErrors although it holds a lone surrogate escape", ctx, doc)
			}
		case lone:
			// destinations that never look at the text of the string: no expectation
		case (err3 == nil) != (gerr == nil):
			ccFail(t, uid, "[%s] %s: accepts=%v with UseUnicodeErrors, accepts=%v without -- %v", ctx, doc, err3 == nil, gerr == nil, err3)
		case err3 == nil && !ccDeepEq(got.Elem(), got3.Elem()):
			gj, _ := json.Marshal(got3.Interface())
			ccFail(t, uid, "[%s] %s: with UseUnicodeErrors sonic decodes it as %.300s", ctx, doc, gj)
		}
	}
	if (werr == nil) != (gerr == nil) {
		// (the text after " -- " is detail: it is not part of the comparison between back ends)
		ccFail(t, id, "[%s] %s: sonic accepts=%v, encoding/json accepts=%v -- %v / %v", ctx, doc, gerr == nil, werr == nil, gerr, werr)
		return
	}
	if werr == nil && !ccDeepEq(want.Elem(), got.Elem()) {
		gj, _ := json.Marshal(got.Interface())
		wj, _ := json.Marshal(want.Interface())
		ccFail(t, id, "[%s] %s: sonic decodes it as %.300s, encoding/json as %.300s", ctx, doc, gj, wj)
	}
}

func TestVerifConform_decode(t *testing.T) {
	cases := 0
	for _, proto := range []interface{}{ccPlain{}, ccOmit{}, ccStr{}} {
		st := reflect.TypeOf(proto)
		for i := 0; i < st.NumField(); i++ {
			f := st.Field(i)
			for _, raw := range ccRaws {
				// (the destination kind without pointer, and only the ,string option, name
				// the case: omitempty and the pointer do not change what is decoded)
				opt := ccTagOpt(f)
				if opt != ",string" {
					opt = ""
				}
				id := fmt.Sprintf("decode:%s%s<-%s", strings.TrimPrefix(f.Type.String(), "*"), opt, raw)
				cases++
				ccCompareUnmarshal(t, id, "field "+f.Name+" of "+st.Name(), st, `{"`+f.Name+`":`+raw+`}`, false)
				if st.Name() != "ccPlain" {
					continue
				}
				// the bare destination, a slice and a map of it, and with UseNumber
				cases += 4
				ccCompareUnmarshal(t, id, "bare", f.Type, raw, false)
				ccCompareUnmarshal(t, id, "slice element", reflect.SliceOf(f.Type), `[`+raw+`, `+raw+`]`, false)
				ccCompareUnmarshal(t, id, "map element", reflect.MapOf(reflect.TypeOf(""), f.Type), `{"k":`+raw+`,"":`+raw+`}`, false)
				ccCompareUnmarshal(t, id, "field "+f.Name+", UseNumber", st, `{"`+f.Name+`":`+raw+`}`, true)
			}
		}
	}
	// populated destinations: what a document leaves untouched stays, what it names is
	// replaced or merged exactly as encoding/json does
	pres := []string{
		`{"I16":7,"S":"old","Sl":[1,2,3],"SlS":["x","y","z"],"M":{"old":1,"k":2},"A":[5,6],"St":{"x":9},"PSt":{"x":9},"P":5,"If":{"old":[1,2],"k":"v"},"Bs":"AAEC","N":"1","F64":1.5}`,
		`{"If":[1,2,3],"M":{},"Sl":[],"PSt":null}`,
	}
	st := reflect.TypeOf(ccPlain{})
	for pi, pre := range pres {
		for i := 0; i < st.NumField(); i++ {
			f := st.Field(i)
			for _, raw := range ccRaws {
				cases++
				_ = pi // (same case id as for the empty destination: the cause is the kind and the literal)
				id := fmt.Sprintf("decode:%s<-%s", strings.TrimPrefix(f.Type.String(), "*"), raw)
				ccCompareUnmarshalPre(t, id, "field "+f.Name+" of ccPlain", st, pre, `{"`+f.Name+`":`+raw+`}`, false)
			}
		}
		for _, doc := range []string{`{}`, `{"If":{"new":1}}`, `{"If":{"k":{"deep":1}}}`, `{"M":{"new":3}}`, `{"M":{"k":null}}`, `{"Sl":[9]}`, `{"Sl":[9,8,7,6]}`, `{"SlS":["n"]}`, `{"A":[1]}`, `{"A":[1,2,3]}`, `{"St":{}}`, `{"PSt":{}}`, `{"If":[9]}`, `{"If":"s"}`} {
			cases++
			ccCompareUnmarshalPre(t, fmt.Sprintf("decode:populated#%d<-%s", pi, doc), "ccPlain", st, pre, doc, false)
			var mw, mg map[string]interface{}
			_ = mw
			_ = mg
		}
	}
	for _, pre := range []string{`{"old":1,"k":{"a":1}}`, `{}`} {
		for _, doc := range []string{`{}`, `{"new":2}`, `{"k":{"b":2}}`, `{"k":null}`, `{"k":[1]}`, `null`} {
			cases++
			ccCompareUnmarshalPre(t, "decode:populated-map<-"+doc, "map[string]interface{}", reflect.TypeOf(map[string]interface{}{}), pre, doc, false)
			cases++
			ccCompareUnmarshalPre(t, "decode:populated-iface<-"+doc, "interface{} holding a map", reflect.TypeOf((*interface{})(nil)).Elem(), pre, doc, false)
		}
	}
	fmt.Printf("CONFORM-STATS test=decode cases=%d\n", cases)
}

type ccSized struct {
	A interface{}
	B map[string]interface{}
	S string
	L []int
	N json.Number
}

// TestVerifConform_sizes: document sizes around the buffer, padding and node-pool
// boundaries of the decoders (every length 0..300, and +-70 around 2^9..2^14 bytes; up to
// 40 000 values in one document), decoded one after the other so that pooled buffers are
// reused; the result must be encoding/json's whatever was decoded before.
func TestVerifConform_sizes(t *testing.T) {
	cases := 0
	var lens []int
	for l := 0; l <= 300; l++ {
		lens = append(lens, l)
	}
	for k := 9; k <= 14; k++ {
		for d := -70; d <= 70; d += 1 {
			lens = append(lens, 1<<k+d)
		}
	}
	pat := func(l int, alphabet string) string {
		b := make([]byte, l)
		for i := range b {
			b[i] = alphabet[(i*7+l)%len(alphabet)]
		}
		return string(b)
	}
	tyS := reflect.TypeOf(ccSized{})
	for _, l := range lens {
		cases += 3
		// a document that is one string of l bytes; an array filling l bytes; an object
		ccCompareUnmarshal(t, fmt.Sprintf("sizes:string-of-%d-bytes", l), "ccSized.S", tyS, `{"S":"`+pat(l, "abcdefghijklmnopqrstuvwxyz012345")+`"}`, false)
		arr := strings.TrimSuffix(strings.Repeat("1,", l/2), ",")
		ccCompareUnmarshal(t, fmt.Sprintf("sizes:array-filling-%d-bytes", l), "ccSized.L", tyS, `{"L":[`+arr+`]}`, false)
		ccCompareUnmarshal(t, fmt.Sprintf("sizes:escaped-string-of-%d-bytes", l), "interface{}", reflect.TypeOf((*interface{})(nil)).Elem(), `["`+pat(l, `ab\"cd\\ef\n`[0:2]+"xyz")+`\u00e9",`+fmt.Sprint(l)+`]`, true)
	}
	// around the initial capacity of the pooled, padded copy of the input (1 MiB)
	for d := -80; d <= 2; d++ {
		cases++
		l := 1<<20 + d
		ccCompareUnmarshal(t, fmt.Sprintf("sizes:document-of-1MiB%+d-bytes", d), "ccSized.S", tyS, `{"S":"`+pat(l-8, "abcdefghijklmnopqrstuvwxyz012345")+`"}`, false)
	}
	for _, n := range []int{10, 100, 1000, 4095, 4096, 4097, 40000} {
		var sb strings.Builder
		sb.WriteString(`{"A":[`)
		for i := 0; i < n; i++ {
			if i > 0 {
				sb.WriteByte(',')
			}
			switch i % 4 {
			case 0:
				sb.WriteString(`123456789012345678901234567890`)
			case 1:
				sb.WriteString(`{"k":1.50}`)
			case 2:
				sb.WriteString(`"s"`)
			default:
				sb.WriteString(`[null,true]`)
			}
		}
		sb.WriteString(`],"B":{"x":1.50,"y":[18446744073709551616]},"N":12.50}`)
		cases += 2
		ccCompareUnmarshal(t, fmt.Sprintf("sizes:document-of-%d-values", n), "ccSized, UseNumber", tyS, sb.String(), true)
		ccCompareUnmarshal(t, fmt.Sprintf("sizes:document-of-%d-values", n), "ccSized", tyS, sb.String(), false)
	}
	fmt.Printf("CONFORM-STATS test=sizes cases=%d\n", cases)
}
