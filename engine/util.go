package main

import "math/big"

func popcount(k *big.Int) int {
	n := 0
	for i := 0; i < k.BitLen(); i++ {
		if k.Bit(i) == 1 {
			n++
		}
	}
	return n
}
