package main

// Memory model: symbolic state, structural pointers (paths), loads and stores.

import (
	"regexp"
	"fmt"
	"go/types"
	"strings"

	"golang.org/x/tools/go/ssa"
)

type Val struct {
	T   types.Type
	S   string // SMT term (scalar, datatype, or Ref for pointers to root objects)
	P   *Path  // structural pointer (interior pointers, pointers to local cells, raw byte pointers)
	Tup []Val
	Fn  *ssa.Function // statically known function value
	Cl  *ssa.MakeClosure
	Bnd []Val // closure bindings
	Alts []PAlt // guarded alternatives of a pointer value (see alts.go)
}

const (
	rootCell = iota
	rootHeap
	rootArr // backing array of a slice: HS_<elem>[base]
	rootGlobal
	rootStrArr // immutable byte array of a string value (term)
	rootGhost  // ghost variable declared in a contract file: Ref = name, T = type
)

type Path struct {
	Kind  int
	Cell  *ssa.Alloc
	T     types.Type // type of the root object (cell elem type, heap object type, array elem type for rootArr)
	Ref   string     // rootHeap: ref term; rootArr: base term; rootStrArr: array term
	Glob  *ssa.Global
	Steps []Step
	View  types.Type // non-nil when the pointer was reinterpreted through unsafe.Pointer
	Lo    string     // for raw pointers into a slice/string array: valid index range [Lo, Hi)
	Hi    string
}

type Step struct {
	IsIdx bool
	Idx   string // index term (index sort)
	Field int
	Raw   bool // index produced by raw pointer arithmetic: bounds are checked at dereference
}

func (p *Path) extend(s Step) *Path {
	q := *p
	q.Steps = append(append([]Step{}, p.Steps...), s)
	q.View = nil
	return &q
}

func (p *Path) String() string {
	var sb strings.Builder
	switch p.Kind {
	case rootCell:
		sb.WriteString("cell:" + p.Cell.Comment)
	case rootHeap:
		sb.WriteString("heap:" + p.Ref)
	case rootArr:
		sb.WriteString("arr:" + p.Ref)
	case rootGlobal:
		sb.WriteString("glob:" + p.Glob.Name())
	case rootStrArr:
		sb.WriteString("str")
	case rootGhost:
		sb.WriteString("ghost:" + p.Ref)
	}
	for _, s := range p.Steps {
		if s.IsIdx {
			sb.WriteString("[" + s.Idx + "]")
		} else {
			sb.WriteString(fmt.Sprintf(".%d", s.Field))
		}
	}
	return sb.String()
}

type State struct {
	cells  map[*ssa.Alloc]string
	heaps  map[string]string
	order  []*ssa.Alloc
	ptrs   map[*ssa.Alloc]Val  // cells currently holding a structural pointer
	poison map[*ssa.Alloc]bool // pointer cells whose content differs between merged paths
	hid    int                 // havoc epoch: heaps absent from `heaps` have the default value of this epoch
	hrefs  map[*ssa.Alloc]string // escaping local variables: the heap object that holds them
}

func newState() *State {
	return &State{cells: map[*ssa.Alloc]string{}, heaps: map[string]string{}, ptrs: map[*ssa.Alloc]Val{}, poison: map[*ssa.Alloc]bool{}, hrefs: map[*ssa.Alloc]string{}}
}

func (s *State) clone() *State {
	n := &State{cells: make(map[*ssa.Alloc]string, len(s.cells)), heaps: make(map[string]string, len(s.heaps)), ptrs: map[*ssa.Alloc]Val{}, poison: map[*ssa.Alloc]bool{}, hrefs: map[*ssa.Alloc]string{}}
	for k, v := range s.hrefs {
		n.hrefs[k] = v
	}
	for k, v := range s.ptrs {
		n.ptrs[k] = v
	}
	for k, v := range s.poison {
		n.poison[k] = v
	}
	for k, v := range s.cells {
		n.cells[k] = v
	}
	for k, v := range s.heaps {
		n.heaps[k] = v
	}
	n.order = append([]*ssa.Alloc{}, s.order...)
	n.hid = s.hid
	return n
}

// heap returns the current term for a named heap/global, creating the
// function-entry constant on first use.
func (c *Ctx) heap(st *State, name, sort string) string {
	c.heapSorts[name] = sort
	if t, ok := st.heaps[name]; ok {
		return t
	}
	return c.defaultHeap(st.hid, name, sort)
}

type hmEntry struct {
	cond string
	id   int
}

// defaultHeap: value of a heap that has not been written since havoc epoch hid
// (epoch 0 = function entry).
func (c *Ctx) defaultHeap(hid int, name, sort string) string {
	key := fmt.Sprintf("%s!%d", name, hid)
	if hm, ok := c.hmerge[hid]; ok {
		if t, ok := c.hmCache[key]; ok {
			return t
		}
		var cs, ts []string
		for _, e := range hm {
			cs = append(cs, e.cond)
			ts = append(ts, c.defaultHeap(e.id, name, sort))
		}
		m := c.mergeTerm("m."+name, sort, cs, ts)
		c.hmCache[key] = m
		return m
	}
	if !c.declSet["heap:"+key] {
		c.decl("heap:"+key, fmt.Sprintf("(declare-const %s %s)", key, sort))
		if hid == 0 {
			c.closedHeapAxiom(name, key)
		}
	}
	return key
}

// closedHeapAxiom: references stored in the memory the function starts with
// denote nil or objects that exist at entry (the initial heap is closed).
func (c *Ctx) closedHeapAxiom(name, h string) {
	if !c.declSet["fn:born"] {
		return // the clock is declared by verifyFunc; data invariants / lemmas have no heap
	}
	now0 := nowHeap + "!0"
	switch c.heapKind[name] {
	case "ref":
		c.decls = append(c.decls, fmt.Sprintf("(assert (forall ((r!c Int)) (! (and (>= (select %s r!c) 0) (or (= (select %s r!c) 0) (< (born (select %s r!c)) %s))) :pattern ((select %s r!c)))))", h, h, h, now0, h))
	case "slice":
		c.decls = append(c.decls, fmt.Sprintf("(assert (forall ((r!c Int)) (! (and (>= (sbase (select %s r!c)) 0) (or (= (sbase (select %s r!c)) 0) (< (born (sbase (select %s r!c))) %s))) :pattern ((select %s r!c)))))", h, h, h, now0, h))
	case "refarr":
		c.decls = append(c.decls, fmt.Sprintf("(assert (forall ((b!c Int) (k!c %s)) (! (and (>= (select (select %s b!c) k!c) 0) (or (= (select (select %s b!c) k!c) 0) (< (born (select (select %s b!c) k!c)) %s))) :pattern ((select (select %s b!c) k!c)))))", c.idxSort(), h, h, h, now0, h))
	}
}

func isRefType(t types.Type) bool {
	switch u := t.Underlying().(type) {
	case *types.Pointer, *types.Map, *types.Chan, *types.Signature, *types.Interface:
		return true
	case *types.Basic:
		return u.Kind() == types.UnsafePointer
	}
	return false
}

func (c *Ctx) heapNameObj(t types.Type) (string, string) {
	s := c.sortOf(t)
	return "H_" + sanitize(s), fmt.Sprintf("(Array Int %s)", s)
}

// heapNameField: struct objects on the heap are split into one heap per field
// (Burstall-Bornat): H_<struct>.<field> : Ref -> field sort.
func (c *Ctx) heapNameField(t types.Type, u *types.Struct, i int) (string, string) {
	s := c.sortOf(t)
	name := "H_" + sanitize(s) + "." + sanitize(u.Field(i).Name())
	ft := u.Field(i).Type()
	if _, isPtr := ft.Underlying().(*types.Pointer); isPtr {
		c.heapKind[name] = "ref"
	} else if _, isMap := ft.Underlying().(*types.Map); isMap {
		c.heapKind[name] = "ref"
	} else if _, isSl := ft.Underlying().(*types.Slice); isSl {
		c.heapKind[name] = "slice"
	}
	return name, fmt.Sprintf("(Array Int %s)", c.sortOf(ft))
}

// heapNamesOf lists the heap names an lvalue path lives in (for frames).
func (c *Ctx) heapNameOfPath(p *Path) string {
	switch p.Kind {
	case rootHeap:
		if u, ok := heapStruct(p); ok {
			if len(p.Steps) > 0 && !p.Steps[0].IsIdx {
				n, _ := c.heapNameField(p.T, u, p.Steps[0].Field)
				return n
			}
			return "H_" + sanitize(c.sortOf(p.T)) + ".*"
		}
		n, _ := c.heapNameObj(p.T)
		return n
	case rootArr:
		n, _ := c.heapNameArr(p.T)
		return n
	case rootGlobal:
		return globalName(p.Glob)
	case rootGhost:
		return p.Ref
	}
	return ""
}

func (c *Ctx) heapNameArr(elem types.Type) (string, string) {
	s := c.sortOf(elem)
	if _, isPtr := elem.Underlying().(*types.Pointer); isPtr {
		// arrays of pointers are kept apart from arrays of integers (same SMT sort, different memory)
		c.heapKind["HS_Ref"] = "refarr"
		return "HS_Ref", fmt.Sprintf("(Array Int (Array %s %s))", c.idxSort(), s)
	}
	return "HS_" + sanitize(s), fmt.Sprintf("(Array Int (Array %s %s))", c.idxSort(), s)
}

func globalName(g *ssa.Global) string {
	return "G_" + sanitize(g.Pkg.Pkg.Path()+"."+g.Name())
}

func heapStruct(p *Path) (*types.Struct, bool) {
	if p.Kind != rootHeap {
		return nil, false
	}
	if isGoSliceLike(p.T) || isGoStringLike(p.T) {
		return nil, false // header values are atomic (slice / string sorts)
	}
	u, ok := p.T.Underlying().(*types.Struct)
	return u, ok && u.NumFields() > 0
}

// rootTerm returns the current value of the root object of a path.
func (c *Ctx) rootTerm(st *State, p *Path) string {
	switch p.Kind {
	case rootCell:
		t, ok := st.cells[p.Cell]
		if !ok {
			panic(unsupported("use of cell " + p.Cell.Comment + " before its allocation"))
		}
		return t
	case rootHeap:
		if u, ok := heapStruct(p); ok {
			var fs []string
			for i := 0; i < u.NumFields(); i++ {
				n, s := c.heapNameField(p.T, u, i)
				fs = append(fs, c.selHeap(c.heap(st, n, s), p.Ref))
			}
			return fmt.Sprintf("(mk_%s %s)", c.sortOf(p.T), strings.Join(fs, " "))
		}
		n, s := c.heapNameObj(p.T)
		return c.selHeap(c.heap(st, n, s), p.Ref)
	case rootArr:
		n, s := c.heapNameArr(p.T)
		return fmt.Sprintf("(select %s %s)", c.heap(st, n, s), p.Ref)
	case rootGlobal:
		return c.heap(st, globalName(p.Glob), c.sortOf(p.Glob.Type().(*types.Pointer).Elem()))
	case rootStrArr:
		return p.Ref
	case rootGhost:
		return c.heap(st, p.Ref, c.sortOf(p.T))
	}
	panic("bad root")
}

func (c *Ctx) rootType(p *Path) types.Type {
	switch p.Kind {
	case rootCell:
		return p.Cell.Type().(*types.Pointer).Elem()
	case rootHeap:
		return p.T
	case rootArr:
		return types.NewArray(p.T, 1<<40)
	case rootGlobal:
		return p.Glob.Type().(*types.Pointer).Elem()
	case rootStrArr:
		return types.NewArray(types.Typ[types.Uint8], 1<<40)
	case rootGhost:
		return p.T
	}
	panic("bad root")
}

// targetType is the Go type of the location the path designates.
func (c *Ctx) targetType(p *Path) types.Type {
	if p.View != nil {
		return p.View
	}
	return c.naturalType(p)
}

func (c *Ctx) naturalType(p *Path) types.Type {
	t := c.rootType(p)
	for _, s := range p.Steps {
		switch u := t.Underlying().(type) {
		case *types.Struct:
			t = u.Field(s.Field).Type()
		case *types.Array:
			t = u.Elem()
		default:
			panic(unsupported("path step through " + t.String()))
		}
	}
	return t
}

func (c *Ctx) setRoot(st *State, p *Path, term string) {
	switch p.Kind {
	case rootCell:
		st.cells[p.Cell] = term
	case rootHeap:
		if u, ok := heapStruct(p); ok {
			name := c.sortOf(p.T)
			for i := 0; i < u.NumFields(); i++ {
				n, s := c.heapNameField(p.T, u, i)
				h := c.heap(st, n, s)
				st.heaps[n] = c.bind(n, fmt.Sprintf("(store %s %s (%s %s))", h, p.Ref, c.fieldSel(name, u, i), term), s)
			}
			return
		}
		n, s := c.heapNameObj(p.T)
		h := c.heap(st, n, s)
		st.heaps[n] = c.bind(n, fmt.Sprintf("(store %s %s %s)", h, p.Ref, term), s)
	case rootArr:
		n, s := c.heapNameArr(p.T)
		h := c.heap(st, n, s)
		st.heaps[n] = c.bind(n, fmt.Sprintf("(store %s %s %s)", h, p.Ref, term), s)
	case rootGlobal:
		st.heaps[globalName(p.Glob)] = term
	case rootStrArr:
		panic(unsupported("store into string memory"))
	case rootGhost:
		c.heap(st, p.Ref, c.sortOf(p.T))
		st.heaps[p.Ref] = term
	}
}

// load reads the location designated by p.
func (c *Ctx) load(st *State, p *Path) string {
	if p.View != nil {
		return c.loadView(st, p)
	}
	t := c.rootType(p)
	steps := p.Steps
	var term string
	if u, ok := heapStruct(p); ok && len(steps) > 0 && !steps[0].IsIdx {
		n, s := c.heapNameField(p.T, u, steps[0].Field)
		term = c.selHeap(c.heap(st, n, s), p.Ref)
		t = u.Field(steps[0].Field).Type()
		steps = steps[1:]
	} else {
		term = c.rootTerm(st, p)
	}
	for _, s := range steps {
		switch u := t.Underlying().(type) {
		case *types.Struct:
			term = fmt.Sprintf("(%s %s)", c.fieldSel(c.sortOf(t), u, s.Field), term)
			t = u.Field(s.Field).Type()
		case *types.Array:
			term = fmt.Sprintf("(select %s %s)", term, s.Idx)
			t = u.Elem()
		}
	}
	return term
}

// store writes v at the location designated by p.
func (c *Ctx) store(st *State, p *Path, v string) {
	if p.View != nil {
		c.storeView(st, p, v)
		return
	}
	if u, ok := heapStruct(p); ok && len(p.Steps) > 0 && !p.Steps[0].IsIdx {
		fi := p.Steps[0].Field
		n, s := c.heapNameField(p.T, u, fi)
		h := c.heap(st, n, s)
		cur := fmt.Sprintf("(select %s %s)", h, p.Ref)
		nt := c.update(u.Field(fi).Type(), cur, p.Steps[1:], v)
		st.heaps[n] = c.bind(n, fmt.Sprintf("(store %s %s %s)", h, p.Ref, nt), s)
		return
	}
	root := c.rootTerm(st, p)
	nt := c.update(c.rootType(p), root, p.Steps, v)
	c.setRoot(st, p, nt)
}

func (c *Ctx) update(t types.Type, term string, steps []Step, v string) string {
	if len(steps) == 0 {
		return v
	}
	s := steps[0]
	switch u := t.Underlying().(type) {
	case *types.Struct:
		name := c.sortOf(t)
		var fs []string
		for i := 0; i < u.NumFields(); i++ {
			sel := fmt.Sprintf("(%s %s)", c.fieldSel(name, u, i), term)
			if i == s.Field {
				fs = append(fs, c.update(u.Field(i).Type(), sel, steps[1:], v))
			} else {
				fs = append(fs, sel)
			}
		}
		return fmt.Sprintf("(mk_%s %s)", name, strings.Join(fs, " "))
	case *types.Array:
		inner := c.update(u.Elem(), fmt.Sprintf("(select %s %s)", term, s.Idx), steps[1:], v)
		return fmt.Sprintf("(store %s %s %s)", term, s.Idx, inner)
	}
	panic(unsupported("update through " + t.String()))
}

// ---- reinterpreting views (unsafe casts between layout-equivalent types) ----
//
// Supported: *[]T viewed as *rt.GoSlice {Ptr, Len, Cap}; *string viewed as *rt.GoString {Ptr, Len}.

// isGoSliceLike / isGoStringLike: struct types laid out like a slice / string
// header (rt.GoSlice{Ptr,Len,Cap}, rt.GoString{Ptr,Len}).  Values of these
// types are represented by the slice / string sorts, so a []byte and its
// GoSlice view are literally the same value.
func isGoSliceLike(t types.Type) bool {
	if _, named := t.(*types.Named); !named {
		return false
	}
	vs, ok := t.Underlying().(*types.Struct)
	return ok && vs.NumFields() == 3 && vs.Field(0).Name() == "Ptr" && isUnsafePtr(vs.Field(0).Type()) && vs.Field(1).Name() == "Len" && vs.Field(2).Name() == "Cap"
}

func isGoStringLike(t types.Type) bool {
	if _, named := t.(*types.Named); !named {
		return false
	}
	vs, ok := t.Underlying().(*types.Struct)
	return ok && vs.NumFields() == 2 && vs.Field(0).Name() == "Ptr" && isUnsafePtr(vs.Field(0).Type()) && vs.Field(1).Name() == "Len"
}

func viewKind(natural, view types.Type) string {
	if isGoSliceLike(natural) && isGoSliceLike(view) {
		return "slice"
	}
	if isGoStringLike(natural) && isGoStringLike(view) {
		return "string"
	}
	vs, ok := view.Underlying().(*types.Struct)
	if !ok {
		return ""
	}
	switch natural.Underlying().(type) {
	case *types.Slice:
		if vs.NumFields() == 3 && vs.Field(0).Name() == "Ptr" && vs.Field(1).Name() == "Len" && vs.Field(2).Name() == "Cap" {
			return "slice"
		}
	case *types.Basic:
		if isString(natural) && vs.NumFields() == 2 && vs.Field(0).Name() == "Ptr" && vs.Field(1).Name() == "Len" {
			return "string"
		}
	}
	return ""
}

func (c *Ctx) loadView(st *State, p *Path) string {
	q := *p
	q.View = nil
	if viewKind(c.naturalType(&q), p.View) != "" {
		return c.load(st, &q) // same sort: the header value itself
	}
	panic(unsupported("whole-value load through reinterpreted pointer " + p.String()))
}

func (c *Ctx) storeView(st *State, p *Path, v string) {
	q := *p
	q.View = nil
	if viewKind(c.naturalType(&q), p.View) != "" {
		c.store(st, &q, v)
		return
	}
	panic(unsupported("whole-value store through reinterpreted pointer " + p.String()))
}

var reNewSym = regexp.MustCompile(`^new![0-9]+$`)

// selHeap reads heap h at reference r, resolving syntactically what it can:
// select(store(h, r, v), r) = v, and a store at a different allocation site
// (distinct new!k symbols denote distinct objects) is skipped.
func (c *Ctx) selHeap(h, r string) string {
	for i := 0; i < 64; i++ {
		body := h
		if b, ok := c.defBody[h]; ok {
			body = b
		}
		if !strings.HasPrefix(body, "(store ") {
			break
		}
		parts := splitTopLevel(body[1 : len(body)-1])
		if len(parts) != 4 {
			break
		}
		if parts[2] == r {
			return parts[3]
		}
		if reNewSym.MatchString(parts[2]) && reNewSym.MatchString(r) {
			h = parts[1]
			continue
		}
		break
	}
	return fmt.Sprintf("(select %s %s)", h, r)
}
