package main

func genReplay(e *Engine, o *Obligation) (string, string, bool) { return "", "", false }
