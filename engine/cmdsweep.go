package main

// gowp sweep <package path suffix>: zero-annotation no-panic sweep.  Every loop-free
// function of the package that has no contract is run with an empty contract; the
// obligations of the no-panic sweep (index, slice, nil, division, overflow, explicit
// panic) that the solver REFUTES (sat) are printed.  This is an exploration tool: a
// refutation means "needs a precondition, or is a defect" and is triaged by hand; it is
// not one of the registered checks and writes no evidence.

import (
	"fmt"
	"go/types"
	"os"
	"sort"
	"strings"

	"golang.org/x/tools/go/ssa"
)

func cmdSweep(args []string) int {
	if len(args) < 1 {
		usage()
	}
	e, err := loadEngine(nil)
	if err != nil {
		fmt.Fprintln(os.Stderr, "gowp: cannot load /repo:", err)
		return 2
	}
	e.known = map[string]*knownFinding{}
	var pkgPath string
	for p := range e.ssaPkgs {
		if p == args[0] || strings.HasSuffix(p, "/"+args[0]) {
			pkgPath = p
		}
	}
	sp := e.ssaPkgs[pkgPath]
	if sp == nil {
		fmt.Fprintln(os.Stderr, "no such package:", args[0])
		return 2
	}
	var keys []string
	add := func(fn *ssa.Function, key string) {
		if fn == nil || len(fn.Blocks) == 0 || fn.Synthetic != "" || len(loopHeaders(fn)) > 0 {
			return
		}
		if e.contractFor(fn) != nil {
			return
		}
		keys = append(keys, key)
	}
	for name, m := range sp.Members {
		switch x := m.(type) {
		case *ssa.Function:
			if name != "init" {
				add(x, name)
			}
		case *ssa.Type:
			for _, ptr := range []bool{false, true} {
				var t types.Type = x.Type()
				if ptr {
					t = types.NewPointer(t)
				}
				ms := e.prog.MethodSets.MethodSet(t)
				for i := 0; i < ms.Len(); i++ {
					fn := e.prog.MethodValue(ms.At(i))
					if fn == nil || fn.Pkg != sp || fn.Synthetic != "" {
						continue
					}
					_, recvPtr := fn.Signature.Recv().Type().(*types.Pointer)
					if recvPtr != ptr {
						continue
					}
					star := ""
					if ptr {
						star = "*"
					}
					add(fn, fmt.Sprintf("(%s%s).%s", star, x.Name(), fn.Name()))
				}
			}
		}
	}
	sort.Strings(keys)
	nf, nrefuted, nskipped := 0, 0, 0
	for _, k := range keys {
		fc := &FuncContract{Key: k, Pkg: pkgPath, Mode: "int", Loops: map[int]*LoopSpec{}, ModAll: true, HasMod: true}
		r := e.verifyFunc(fc)
		if r.Err != nil {
			nskipped++
			if len(args) > 1 && args[1] == "-v" {
				fmt.Printf("skip %s: %v\n", k, r.Err)
			}
			continue
		}
		nf++
		var obls []*Obligation
		for _, o := range r.Obls {
			if sweepKinds[o.Kind] {
				obls = append(obls, o)
			}
		}
		solveAll(obls, 5)
		for _, o := range obls {
			if o.Status == "sat" {
				nrefuted++
				fmt.Printf("REFUTED %s at %s: %s\n", o.Name, o.Pos, o.Text)
			}
		}
	}
	fmt.Printf("sweep %s: %d loop-free functions without contract examined, %d skipped (unsupported), %d obligations refuted\n", pkgPath, nf, nskipped, nrefuted)
	return 0
}
