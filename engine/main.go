package main

import (
	"encoding/json"
	"flag"
	"fmt"
	"os"
	"path/filepath"
	"sort"
	"strconv"
	"strings"
	"sync"
	"time"
)

const verifDir = "/verif"

func usage() {
	fmt.Fprintln(os.Stderr, `usage:
  gowp check <Cxx> [--tier quick|thorough] [--only substr] [--dump dir] [-v]
  gowp list                 list functions under contract and their properties
  gowp replay <file>        show / re-run a recorded violation
  gowp sweep <pkg> [-v]     zero-annotation no-panic sweep of loop-free functions (exploration)`)
	os.Exit(2)
}

func main() {
	if len(os.Args) < 2 {
		usage()
	}
	switch os.Args[1] {
	case "check":
		os.Exit(cmdCheck(os.Args[2:]))
	case "list":
		os.Exit(cmdList())
	case "replay":
		os.Exit(cmdReplay(os.Args[2:]))
	case "ssa":
		os.Exit(cmdSSA(os.Args[2:]))
	case "sweep":
		os.Exit(cmdSweep(os.Args[2:]))
	default:
		usage()
	}
}

// pkgFilter: with the pseudo property ALL, GOWP_PKGS (comma-separated package path
// suffixes) selects every contract of those packages, whatever property it serves
// (used by the seeded-change matrix to see which property's obligations catch a change).
func pkgSelected(pkg string) bool {
	l := os.Getenv("GOWP_PKGS")
	if l == "" {
		return true
	}
	for _, s := range strings.Split(l, ",") {
		if s != "" && (pkg == s || strings.HasSuffix(pkg, "/"+s)) {
			return true
		}
	}
	return false
}

func hasPropExact(ps []string, p string) bool {
	for _, x := range ps {
		if x == p {
			return true
		}
	}
	return false
}

func hasProp(ps []string, p string) bool {
	if p == "ALL" {
		return true
	}
	for _, x := range ps {
		if x == p {
			return true
		}
	}
	return false
}

var sweepKinds = map[string]bool{"bounds": true, "nil": true, "div": true, "overflow": true, "panic": true, "decreases": true}

func cmdList() int {
	e, err := loadEngine(nil)
	if err != nil {
		fmt.Fprintln(os.Stderr, err)
		return 2
	}
	for _, cf := range e.files {
		for _, fc := range cf.Funcs {
			a := ""
			if fc.Assumed {
				a = " [assumed]"
			}
			fmt.Printf("%s %s props=%s mode=%s%s\n", cf.Pkg, fc.Key, strings.Join(fc.Props, ","), fc.Mode, a)
		}
	}
	return 0
}

type knownFinding struct {
	Property    string `json:"property"`
	Obligation  string `json:"obligation"`
	Description string `json:"description"`
	Status      string `json:"status"` // "known" | "fixed"
	Commit      string `json:"commit,omitempty"`
	Witness     string `json:"witness,omitempty"`
}

func loadKnown() []knownFinding {
	var out []knownFinding
	b, err := os.ReadFile(filepath.Join(verifDir, "KNOWN_FINDINGS.jsonl"))
	if err != nil {
		return nil
	}
	for _, l := range strings.Split(string(b), "\n") {
		l = strings.TrimSpace(l)
		if l == "" || strings.HasPrefix(l, "#") || strings.HasPrefix(l, "fixed:") {
			continue
		}
		var k knownFinding
		if json.Unmarshal([]byte(l), &k) == nil {
			out = append(out, k)
		}
	}
	return out
}

func cmdCheck(args []string) int {
	fs := flag.NewFlagSet("check", flag.ExitOnError)
	tier := fs.String("tier", os.Getenv("VERIF_TIER"), "quick|thorough")
	only := fs.String("only", "", "only functions whose key contains this substring")
	dump := fs.String("dump", "", "directory to dump SMT files of failed obligations")
	verbose := fs.Bool("v", false, "verbose")
	if len(args) < 1 {
		usage()
	}
	prop := args[0]
	fs.Parse(args[1:])
	if *tier == "" {
		*tier = "quick"
	}
	seed, _ := strconv.Atoi(os.Getenv("VERIF_SEED"))
	start := time.Now()
	e, err := loadEngine(nil)
	if err != nil {
		fmt.Fprintln(os.Stderr, "gowp: cannot load /repo:", err)
		return 2
	}
	loadSecs := time.Since(start).Seconds()
	known := loadKnown()
	e.known = map[string]*knownFinding{}
	for i := range known {
		if prop == "ALL" || hasPropExact(strings.Split(known[i].Property, ","), prop) {
			e.known[known[i].Obligation] = &known[i]
		}
	}

	var todo []*FuncContract
	var assumedAll []string
	for _, cf := range e.files {
		for _, fc := range cf.Funcs {
			if fc.Assumed || (prop == "ALL" && !pkgSelected(fc.Pkg)) {
				continue
			}
			sel := hasProp(fc.Props, prop) || (prop == "C07" && !fc.NoSweep)
			if !sel {
				// clause-level props
				for _, en := range fc.Ensures {
					if hasProp(en.Props, prop) {
						sel = true
					}
				}
			}
			if sel && (*only == "" || strings.Contains(fc.Key, *only)) {
				todo = append(todo, fc)
			}
		}
	}
	if os.Getenv("GOWP_ONLYCONFORM") != "" {
		// (seed matrix: only the bounded harnesses; the exit status is then meaningless)
		todo = nil
	}
	// VC generation (parallel per function)
	results := make([]*FuncResult, len(todo))
	var wg sync.WaitGroup
	sem := make(chan struct{}, 8)
	for i, fc := range todo {
		wg.Add(1)
		sem <- struct{}{}
		go func(i int, fc *FuncContract) {
			defer wg.Done()
			defer func() { <-sem }()
			results[i] = e.verifyFunc(fc)
		}(i, fc)
	}
	wg.Wait()
	genSecs := time.Since(start).Seconds() - loadSecs

	var obls []*Obligation
	broken := 0
	notes := map[string]bool{}
	inlined := map[string]bool{}
	funcs := []string{}
	for _, r := range results {
		name := r.Contract.Pkg[strings.LastIndex(r.Contract.Pkg, "/")+1:] + "." + r.Contract.Key
		if r.Err != nil {
			fmt.Printf("BROKEN-CONTRACT %s: %v\n", name, r.Err)
			broken++
			continue
		}
		funcs = append(funcs, fmt.Sprintf("%s [%s]", name, r.Mode))
		for _, n := range r.Notes {
			notes[n] = true
		}
		for _, n := range r.Inlined {
			inlined[n] = true
		}
		for _, a := range r.Assumed {
			assumedAll = append(assumedAll, a)
		}
		for _, o := range r.Obls {
			ps := o.Props
			if sweepKinds[o.Kind] {
				ps = append(append([]string{}, ps...), "C07")
			}
			if hasProp(ps, prop) || o.Kind == "cover" {
				obls = append(obls, o)
			}
		}
	}
	// data invariants and lemmas
	var dobls []*Obligation
	var derr error
	if os.Getenv("GOWP_ONLYCONFORM") == "" {
		dobls, derr = e.dataObligations(prop)
	}
	if derr != nil {
		fmt.Printf("BROKEN-CONTRACT datainv: %v\n", derr)
		broken++
	}
	obls = append(obls, dobls...)

	// CPU seconds per solver in the race (the first stage is a 4 s attempt with z3 5.1).
	// Obligations that hold are discharged well inside the budget on an idle machine;
	// the margin is for loaded machines and for solver run-to-run variance.
	secs := 30
	if *tier == "thorough" {
		secs = 120
	}
	solveStart := time.Now()
	solveAll(obls, secs)
	xcConfirmed, xcUnconfirmed := -1, -1
	var xcDisagree []*Obligation
	if *tier == "thorough" {
		// second opinion: a solver of another family re-proves what the first one proved
		xcConfirmed, xcUnconfirmed, xcDisagree = crossCheck(obls, 20)
		for _, o := range xcDisagree {
			o.Status, o.Solver, o.Output = "unknown", "solvers-disagree", "one solver proved the obligation, another reports a counter-model"
		}
	}
	solveSecs := time.Since(solveStart).Seconds()

	byName := map[string]*Obligation{}
	for _, o := range obls {
		byName[o.Name] = o
	}
	discharged, total := 0, 0
	violations := 0
	var samples []interface{}
	solverCount := map[string]int{}
	var solverTime float64
	vacuous := 0
	knownHit := []string{}
	sort.SliceStable(obls, func(i, j int) bool { return obls[i].Name < obls[j].Name })
	if d := os.Getenv("GOWP_DUMPALL"); d != "" {
		os.MkdirAll(d, 0o755)
		for _, o := range obls {
			os.WriteFile(filepath.Join(d, sanitize(o.Name)+".smt2"), []byte(o.smt()), 0o644)
		}
	}
	for _, o := range obls {
		solverTime += o.Secs
		if o.Kind == "cover" {
			if o.Status == "unsat" {
				fmt.Printf("VACUOUS %s: no return is reachable under the assumptions (contradictory requires/assumed contracts)\n", o.Func)
				vacuous++
			}
			continue
		}
		total++
		if o.Status == "unsat" {
			discharged++
			solverCount[o.Solver]++
			if len(samples) < 12 {
				samples = append(samples, map[string]string{"obligation": o.Name, "kind": o.Kind, "at": o.Pos, "clause": o.Text, "solver": o.Solver})
			}
			if *verbose {
				fmt.Printf("ok   %-60s %s %.2fs\n", o.Name, o.Solver, o.Secs)
			}
			continue
		}
		// not discharged
		if o.Kind == "narrowed" {
			// reported together with the obligation it narrows
			total--
			continue
		}
		kf := matchKnown(known, prop, o.Name)
		if kf != nil {
			nar := byName[o.Name+"|outside-known-finding"]
			if kf.Witness == "" || (nar != nil && nar.Status == "unsat") {
				fmt.Printf("KNOWN-FINDING: property=%s %s [%s]\n", prop, kf.Description, o.Name)
				knownHit = append(knownHit, o.Name)
				total--
				continue
			}
			fmt.Printf("obligation %s fails outside the region of the listed known finding (%s)\n", o.Name, kf.Witness)
		}
		violations++
		path := writeReplay(e, prop, o)
		suffix := ""
		if o.Status != "sat" || !replayReproduced(path) {
			suffix = " no-failing-input-found"
		}
		if prop == "ALL" {
			ps := o.Props
			if sweepKinds[o.Kind] && !hasPropExact(ps, "C07") {
				ps = append(append([]string{}, ps...), "C07")
			}
			fmt.Printf("FAILED[%s] %s (%s, %s) at %s: %s\n", strings.Join(ps, ","), o.Name, o.Status, o.Solver, o.Pos, o.Text)
		} else {
			fmt.Printf("FAILED %s (%s, %s) at %s: %s\n", o.Name, o.Status, o.Solver, o.Pos, o.Text)
		}
		if *verbose {
			fmt.Printf("     solvers: %s (%.1fs)\n", strings.ReplaceAll(o.Output, "\n", " "), o.Secs)
		}
		fmt.Printf("VIOLATION property=%s replay=%s%s\n", prop, path, suffix)
		if *dump != "" {
			os.MkdirAll(*dump, 0o755)
			os.WriteFile(filepath.Join(*dump, sanitize(o.Name)+".smt2"), []byte(o.smt()+"(get-model)\n"), 0o644)
		}
	}
	// bounded conformance harnesses for what the verifier cannot reach (native machine code)
	var bounded []*conformResult
	if os.Getenv("GOWP_NOCONFORM") == "" && *only == "" {
		bounded = runConform(prop)
	}
	conformSeen := map[string]bool{}
	for _, r := range bounded {
		if r.Status == "not-run" {
			fmt.Printf("bounded harness %s %v did not run (it does not build or timed out on this tree); nothing is concluded from it\n", r.Test, r.Env)
			continue
		}
		for _, f := range r.fails {
			name := "conform:" + f.ID
			seenKey := name + "|" + strings.Join(f.props, ",") // (ALL: once per property group)
			if conformSeen[seenKey] {
				continue
			}
			conformSeen[seenKey] = true
			if prop == "ALL" {
				// (seed matrix) a listed finding excuses the failure only for the properties
				// it is listed under
				ps := f.props
				if len(ps) == 0 {
					ps = r.props
				}
				var left []string
				for _, q := range ps {
					if matchKnown(known, q, name) == nil {
						left = append(left, q)
					}
				}
				if len(left) == 0 {
					knownHit = append(knownHit, name)
					continue
				}
				f.props = left
			} else if kf := matchKnown(known, prop, name); kf != nil {
				fmt.Printf("KNOWN-FINDING: property=%s %s [%s]\n", prop, kf.Description, name)
				knownHit = append(knownHit, name)
				r.Known++
				continue
			}
			violations++
			r.Violations++
			path := writeConformReplay(prop, r, f)
			if prop == "ALL" {
				ps := f.props
				if len(ps) == 0 {
					ps = r.props
				}
				fmt.Printf("FAILED[%s] %s (bounded harness %s %s): %s\n", strings.Join(ps, ","), name, r.Test, f.Env, f.Msg)
			} else {
				fmt.Printf("FAILED %s (bounded harness %s %s): %s\n", name, r.Test, f.Env, f.Msg)
			}
			fmt.Printf("VIOLATION property=%s replay=%s\n", prop, path)
		}
	}
	wall := time.Since(start).Seconds()
	// evidence
	tb := []string{
		"gowp (this engine): SSA(NaiveForm) -> SMT translation, memory model, loop cutting; the translation itself is unverified",
		"golang.org/x/tools/go/ssa v0.29.0 (SSA construction from the type-checked source of /repo's working tree, build tags linux/amd64 + verif)",
		"SMT solvers: z3 5.1.0 (z3-new), z3 4.8.12, cvc5 1.0.x; 'unsat' answers are trusted",
		"integers: mode 'int' = mathematical integers with a no-overflow obligation on every + - * (unless the contract is marked wraps); mode 'bv' = bit-precise",
		"sync/atomic modelled sequentially; goroutines, GC, stack growth not modelled; maps, reflect and interface dynamic dispatch abstracted (see assumptions)",
	}
	sort.Strings(assumedAll)
	assumedAll = uniq(assumedAll)
	assumptions := []string{}
	for _, a := range assumedAll {
		assumptions = append(assumptions, "assumed contract (not proved): "+a)
	}
	for _, n := range sortedKeys(notes) {
		assumptions = append(assumptions, "abstraction: "+n)
	}
	for _, n := range sortedKeys(inlined) {
		assumptions = append(assumptions, "inlined callee (verified as part of its callers): "+n)
	}
	for _, k := range knownHit {
		assumptions = append(assumptions, "known finding, obligation excluded from the counts: "+k)
	}
	if len(samples) == 0 {
		samples = append(samples, "no obligations")
	}
	boundedEv := []interface{}{}
	for _, r := range bounded {
		boundedEv = append(boundedEv, r)
		assumptions = append(assumptions, fmt.Sprintf("BOUNDED stand-in (not proof, not counted): %s %v on %s: %s; bound: %s; %d cases, %d failing cases counted for this property (%d listed as known findings, %d reported), harness status %s", r.Test, r.Env, r.Pkg, r.What, r.Bound, r.Cases, r.Failures, r.Known, r.Violations, r.Status))
	}
	ev := map[string]interface{}{
		"property_id": prop,
		"tier":        *tier,
		"seed":        seed,
		"level":       "proof",
		"coverage": map[string]interface{}{
			"obligations":              total,
			"discharged":               discharged,
			"checker_cmd":              "bin/gowp check " + prop + " --tier " + *tier,
			"trusted_base":             tb,
			"samples":                  samples,
			"functions_under_contract": funcs,
			"solver_counts":            solverCount,
			"solver_seconds":           round2(solverTime),
			"load_seconds":             round2(loadSecs),
			"vcgen_seconds":            round2(genSecs),
			"solve_wall_seconds":       round2(solveSecs),
			"known_findings":           knownHit,
			"broken_contracts":         broken,
			"vacuous_functions":        vacuous,
			"per_query_timeout_s":      secs,
			"cross_check_confirmed":    xcConfirmed,
			"cross_check_unconfirmed":  xcUnconfirmed,
			"cross_check_disagreements": len(xcDisagree),
			"bounded_checks":           boundedEv,
		},
		"assumptions": assumptions,
		"wall_s":      round2(wall),
		"violations":  violations,
	}
	os.MkdirAll(filepath.Join(verifDir, "evidence"), 0o755)
	b, _ := json.MarshalIndent(ev, "", " ")
	if os.Getenv("GOWP_NOEVIDENCE") == "" {
		// (runs of the seeded-change tool on scratch worktrees must not overwrite the evidence of /repo)
		os.WriteFile(filepath.Join(verifDir, "evidence", prop+".json"), b, 0o644)
	}
	fmt.Printf("%s: %d functions, %d obligations, %d discharged, %d violations, %d known findings, %d broken contracts, %d vacuous; load %.1fs vcgen %.1fs solve %.1fs\n",
		prop, len(funcs), total, discharged, violations, len(knownHit), broken, vacuous, loadSecs, genSecs, solveSecs)
	if xcConfirmed >= 0 {
		fmt.Printf("%s: cross-check by a second solver: %d proofs confirmed, %d without a second verdict, %d disagreements\n", prop, xcConfirmed, xcUnconfirmed, len(xcDisagree))
	}
	if violations > 0 {
		return 1
	}
	if broken > 0 || vacuous > 0 || total == 0 {
		if total == 0 {
			fmt.Println("no obligations generated: refusing to report success")
		}
		return 2
	}
	return 0
}

func round2(f float64) float64 { return float64(int(f*100+0.5)) / 100 }

func uniq(s []string) []string {
	var out []string
	for i, x := range s {
		if i == 0 || x != s[i-1] {
			out = append(out, x)
		}
	}
	return out
}

func matchKnown(known []knownFinding, prop, obl string) *knownFinding {
	for i := range known {
		k := &known[i]
		if k.Status == "fixed" {
			continue
		}
		if (prop == "ALL" || hasPropExact(strings.Split(k.Property, ","), prop)) && k.Obligation == obl {
			return k
		}
	}
	return nil
}

func cmdReplay(args []string) int {
	if len(args) < 1 {
		usage()
	}
	b, err := os.ReadFile(args[0])
	if err != nil {
		fmt.Fprintln(os.Stderr, err)
		return 2
	}
	var r map[string]interface{}
	if err := json.Unmarshal(b, &r); err != nil {
		fmt.Fprintln(os.Stderr, err)
		return 2
	}
	fmt.Printf("obligation: %v\nfunction:   %v\nat:         %v\nclause:     %v\nstatus:     %v (%v)\n", r["obligation"], r["function"], r["at"], r["clause"], r["status"], r["solver"])
	if t, ok := r["replay_test"].(string); ok && t != "" {
		pkgDir, _ := r["replay_pkg_dir"].(string)
		out, failed := runReplayTest(pkgDir, t)
		fmt.Println(out)
		if failed {
			fmt.Println("replay: the failing input reproduces on the real code")
			return 1
		}
		fmt.Println("replay: did not reproduce")
		return 0
	}
	fmt.Println("no executable replay (no model or inputs not reconstructible); solver output:")
	fmt.Println(r["solver_output"])
	return 1
}
