package main

// Allocation clock.  Every reference has a birth time born(r); the ghost clock
// $now advances at every allocation and across every call.  "alive at entry"
// is born(r) < $now@entry; a reference found in memory or received as a
// parameter was born before the current time; an object allocated now (or by a
// callee whose contract says fresh(result)) is born at or after the time of the
// allocation/call and is therefore distinct from everything that existed then.

import "fmt"

const nowHeap = "$now"

func (c *Ctx) declClock() {
	c.decl("fn:born", "(declare-fun born (Int) Int)")
	n0 := c.defaultHeap(0, nowHeap, "Int")
	c.heapSorts[nowHeap] = "Int"
	c.decl("fn:alive0", fmt.Sprintf("(define-fun alive0 ((r!a Int)) Bool (< (born r!a) %s))", n0))
}

func (c *Ctx) now(st *State) string { return c.heap(st, nowHeap, "Int") }

// bornBefore: ref is nil or was allocated before the current time of st.
func (c *Ctx) bornBefore(st *State, ref string) string {
	return fmt.Sprintf("(or (= %s 0) (< (born %s) %s))", ref, ref, c.now(st))
}

func (f *Frame) assumeFresh(r string) {
	c := f.c
	cur := c.now(f.st)
	c.assume(fmt.Sprintf("(and (> %s 0) (= (born %s) %s))", r, r, cur))
	f.st.heaps[nowHeap] = c.define("now", fmt.Sprintf("(+ %s 1)", cur), "Int")
}

// advanceClock: a callee may have allocated; time moves forward by an unknown amount.
func (f *Frame) advanceClock() {
	c := f.c
	cur := c.now(f.st)
	n := c.fresh("now", "Int")
	c.assume(fmt.Sprintf("(>= %s %s)", n, cur))
	f.st.heaps[nowHeap] = n
}
