package main

// Substitution on contract expressions (used to unfold non-recursive pure
// predicates so that their conjuncts become separate obligations).

func substSpec(e SExpr, m map[string]SExpr) SExpr {
	if e == nil {
		return nil
	}
	switch n := e.(type) {
	case *SIdent:
		if r, ok := m[n.Name]; ok {
			return r
		}
		return n
	case *SNum, *SStr, *SBool, *SNil:
		return n
	case *SUnary:
		return &SUnary{n.Op, substSpec(n.X, m)}
	case *SBinary:
		return &SBinary{n.Op, substSpec(n.X, m), substSpec(n.Y, m)}
	case *SField:
		return &SField{substSpec(n.X, m), n.Name}
	case *SIndex:
		return &SIndex{substSpec(n.X, m), substSpec(n.I, m)}
	case *SSlice:
		return &SSlice{substSpec(n.X, m), substSpec(n.Lo, m), substSpec(n.Hi, m)}
	case *SCall:
		var as []SExpr
		for _, a := range n.Args {
			as = append(as, substSpec(a, m))
		}
		return &SCall{n.Fn, as}
	case *SOld:
		return &SOld{substSpec(n.X, m)}
	case *SIte:
		return &SIte{substSpec(n.C, m), substSpec(n.A, m), substSpec(n.B, m)}
	case *SQuant:
		m2 := map[string]SExpr{}
		for k, v := range m {
			m2[k] = v
		}
		for _, v := range n.Vars {
			delete(m2, v.Name)
		}
		var pats [][]SExpr
		for _, p := range n.Pats {
			var q []SExpr
			for _, x := range p {
				q = append(q, substSpec(x, m2))
			}
			pats = append(pats, q)
		}
		return &SQuant{n.Forall, n.Vars, substSpec(n.Body, m2), pats}
	}
	return e
}

// freeIn reports whether name occurs as an identifier in e.
func freeIn(e SExpr, name string) bool {
	found := false
	walkSpec(e, func(x SExpr) {
		if id, ok := x.(*SIdent); ok && id.Name == name {
			found = true
		}
	})
	return found
}

// splitConjDeep: like splitConj, additionally unfolding calls of non-recursive
// pure predicates of package pkg (when their arguments are free of capture problems).
func (e *Engine) splitConjDeep(pkg string, x SExpr, depth int) []SExpr {
	switch n := x.(type) {
	case *SBinary:
		if n.Op == "&&" {
			return append(e.splitConjDeep(pkg, n.X, depth), e.splitConjDeep(pkg, n.Y, depth)...)
		}
		if n.Op == "==>" {
			var out []SExpr
			for _, c := range e.splitConjDeep(pkg, n.Y, depth) {
				out = append(out, &SBinary{"==>", n.X, c})
			}
			return out
		}
	case *SCall:
		if depth > 4 {
			break
		}
		pf := e.pure(pkg, n.Fn)
		if pf == nil || pf.Body == nil || pf.Rec || pf.Ret != "bool" || len(pf.Params) != len(n.Args) || pf.Pkg != pkg {
			break
		}
		m := map[string]SExpr{}
		ok := true
		for i, p := range pf.Params {
			// arguments must be simple (identifiers / field paths) so that substitution under quantifiers cannot capture
			switch n.Args[i].(type) {
			case *SIdent, *SField, *SNum:
				m[p.Name] = n.Args[i]
			default:
				ok = false
			}
		}
		if !ok {
			break
		}
		return e.splitConjDeep(pkg, substSpec(pf.Body, m), depth+1)
	}
	return []SExpr{x}
}
