package main

// Data invariants (closed formulas over package-level constants) and lemmas
// (closed formulas, usually quantified) are obligations without a function body.

import (
	"fmt"
	"strings"
)

func (e *Engine) dataObligations(prop string) (obls []*Obligation, err error) {
	defer func() {
		if r := recover(); r != nil {
			switch x := r.(type) {
			case specErr:
				err = x
			case unsupportedErr:
				err = x
			default:
				panic(r)
			}
		}
	}()
	for _, cf := range e.files {
		if prop == "ALL" && !pkgSelected(cf.Pkg) {
			continue
		}
		short := cf.Pkg[strings.LastIndex(cf.Pkg, "/")+1:]
		for _, di := range cf.Invs {
			if !hasProp(di.Props, prop) {
				continue
			}
			mode := di.Mode
			if mode == "" {
				mode = "int"
			}
			c := newCtx(e, mode)
			c.fnName = short + ".datainv"
			env := &SpecEnv{c: c, vars: map[string]Val{}, pkg: e.ssaPkg(cf.Pkg)}
			g := func() (s string) {
				defer func() {
					if r := recover(); r != nil {
						if se, ok := r.(specErr); ok {
							panic(specErr{fmt.Sprintf("%s:%d datainv %s: %s", cf.File, di.Line, di.Name, se.msg)})
						}
						panic(r)
					}
				}()
				return env.evalBool(di.Expr)
			}()
			obls = append(obls, &Obligation{Name: short + ".datainv." + di.Name, Kind: "datainv", Props: di.Props, Func: short + ".datainv",
				Pos: fmt.Sprintf("%s:%d", cf.File, di.Line), NDefs: len(c.decls), Goal: g, Text: di.Text, ctx: c})
		}
		for _, lm := range cf.Lemmas {
			if !hasProp(lm.Props, prop) {
				continue
			}
			mode := lm.Mode
			if mode == "" {
				mode = "int"
			}
			c := newCtx(e, mode)
			c.fnName = short + ".lemma"
			env := &SpecEnv{c: c, vars: map[string]Val{}, pkg: e.ssaPkg(cf.Pkg)}
			g := env.evalBool(lm.Expr)
			obls = append(obls, &Obligation{Name: short + ".lemma." + lm.Name, Kind: "lemma", Props: lm.Props, Func: short + ".lemma",
				Pos: fmt.Sprintf("%s:%d", cf.File, lm.Line), NDefs: len(c.decls), Goal: g, Text: lm.Text, ctx: c})
		}
	}
	return obls, nil
}
