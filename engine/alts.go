package main

// Guarded pointer alternatives: a pointer value that designates different
// locations on different paths (e.g. the result of linkedNodes.At, which is
// &head[i] or &tail[a][b] or nil).  Loads become ite-chains, stores become
// conditional stores into every alternative.

import (
	"golang.org/x/tools/go/ssa"
	"fmt"
	"go/token"
	"go/types"
)

type PAlt struct {
	Cond string
	P    *Path // nil: the nil pointer
}

// alts normalises any pointer value into its list of alternatives.
func (f *Frame) alts(v Val) []PAlt {
	if len(v.Alts) > 0 {
		return v.Alts
	}
	if v.P != nil {
		return []PAlt{{"true", v.P}}
	}
	pt, ok := v.T.Underlying().(*types.Pointer)
	if !ok {
		panic(unsupported("dereference of non-pointer " + v.T.String()))
	}
	if v.S == "0" {
		return []PAlt{{"true", nil}}
	}
	// SMT-level reference to a root object: nil when 0
	return []PAlt{{fmt.Sprintf("(= %s 0)", v.S), nil}, {fmt.Sprintf("(not (= %s 0))", v.S), &Path{Kind: rootHeap, T: pt.Elem(), Ref: v.S}}}
}

// derefAlts: the non-nil alternatives, with the obligation that nil ones are unreachable.
func (f *Frame) derefAlts(v Val, pos token.Pos, what string) []PAlt {
	var out []PAlt
	for _, a := range f.alts(v) {
		if a.P == nil {
			f.oblige("nil", what, not(a.Cond), pos, nil, "nil pointer dereference")
			continue
		}
		out = append(out, a)
	}
	if len(out) == 0 {
		// always nil: obligation raised; continue with a dummy unreachable location
		panic(unsupported("dereference of a pointer that is always nil"))
	}
	return out
}

// mapAlts builds a pointer value from transformed alternatives.
func mkAltsVal(t types.Type, as []PAlt) Val {
	if len(as) == 1 && as[0].P != nil {
		return Val{T: t, P: as[0].P}
	}
	return Val{T: t, Alts: as}
}

// withCond runs fn with the reach condition strengthened by cond.
func (f *Frame) withCond(cond string, fn func()) {
	save := f.reach
	f.reach = and(save, cond)
	defer func() { f.reach = save }()
	fn()
}

// loadAlts loads through a (possibly multi-alternative) pointer.
func (f *Frame) loadAlts(as []PAlt, t types.Type) Val {
	if len(as) == 1 {
		return f.loadVal(as[0].P, t)
	}
	var res Val
	term := ""
	for i := len(as) - 1; i >= 0; i-- {
		var v Val
		f.withCond(as[i].Cond, func() { v = f.loadVal(as[i].P, t) })
		if v.P != nil || len(v.Alts) > 0 {
			panic(unsupported("load of a pointer through a multi-alternative pointer"))
		}
		if term == "" {
			term = v.S
		} else {
			term = ite(as[i].Cond, v.S, term)
		}
		res = v
	}
	res.S = f.c.bind("ldalt", term, f.c.sortOf(t))
	return res
}

// storeAlts stores through a (possibly multi-alternative) pointer.
func (f *Frame) storeAlts(as []PAlt, v Val) {
	if len(as) == 1 {
		f.storeVal(as[0].P, v)
		return
	}
	if v.P != nil || len(v.Alts) > 0 {
		panic(unsupported("store of a structural pointer through a multi-alternative pointer"))
	}
	for _, a := range as {
		a := a
		f.withCond(a.Cond, func() {
			cur := f.c.load(f.st, a.P)
			f.storeVal(a.P, Val{T: v.T, S: ite(a.Cond, v.S, cur)})
		})
	}
}

// altTerm: an SMT term identifying the pointer (for comparisons).
func (f *Frame) altTerm(v Val) string {
	as := f.alts(v)
	term := ""
	for i := len(as) - 1; i >= 0; i-- {
		t := "0"
		if as[i].P != nil {
			t = f.ptrTerm(Val{T: v.T, P: as[i].P})
		}
		if term == "" {
			term = t
		} else {
			term = ite(as[i].Cond, t, term)
		}
	}
	return term
}

func sameAlts(a, b Val) bool {
	if len(a.Alts) != len(b.Alts) {
		return false
	}
	for i := range a.Alts {
		if a.Alts[i].Cond != b.Alts[i].Cond {
			return false
		}
		if (a.Alts[i].P == nil) != (b.Alts[i].P == nil) {
			return false
		}
		if a.Alts[i].P != nil && (a.Alts[i].P.String() != b.Alts[i].P.String() || a.Alts[i].P.View != b.Alts[i].P.View) {
			return false
		}
	}
	return true
}

// sameRawRoot: on every edge the pointer cell a holds a single raw pointer into the same
// memory (same root, view, bounds and leading steps); only the last index differs.
func (c *Ctx) sameRawRoot(es []edge, a *ssa.Alloc) bool {
	var first *Path
	for _, e := range es {
		q, ok := e.st.ptrs[a]
		if !ok || q.P == nil || len(q.Alts) > 0 || len(q.P.Steps) == 0 {
			return false
		}
		last := q.P.Steps[len(q.P.Steps)-1]
		if !last.IsIdx || !last.Raw {
			return false
		}
		if first == nil {
			first = q.P
			continue
		}
		p := q.P
		if p.Kind != first.Kind || p.Ref != first.Ref || p.Cell != first.Cell || p.Glob != first.Glob || p.View != first.View ||
			p.Lo != first.Lo || p.Hi != first.Hi || len(p.Steps) != len(first.Steps) {
			return false
		}
		for i := 0; i < len(p.Steps)-1; i++ {
			if p.Steps[i] != first.Steps[i] {
				return false
			}
		}
	}
	return first != nil
}
