package main

// Discharging obligations: one SMT-LIB query per obligation, z3-new first,
// then a race of z3 4.8 / cvc5 / z3-new with the full timeout.

import (
	"bytes"
	"context"
	"fmt"
	"os"
	"os/exec"
	"path/filepath"
	"runtime"
	"strings"
	"sync"
	"time"
)

func (o *Obligation) smt() string { return o.smtWith("") }

// smtWith: the query with an extra assumption (used to split a proof by cases).
func (o *Obligation) smtWith(extra string) string {
	c := o.ctx
	var sb strings.Builder
	sb.WriteString("(set-option :produce-models true)\n(set-logic ALL)\n")
	// text slicing: a goal that does not talk about texts is proved without the
	// (quantifier-heavy) text facts; dropping assumptions is always sound.
	slice := !strings.Contains(o.Goal, "(txt ")
	if slice {
		for _, d := range c.decls[:o.NDefs] {
			if strings.HasPrefix(d, "(define-fun ") && strings.Contains(d, "(txt ") {
				slice = false
				break
			}
		}
	}
	for _, d := range c.decls[:o.NDefs] {
		if d != "" {
			if slice && strings.HasPrefix(d, "(assert ") && strings.Contains(d, "(txt ") {
				continue
			}
			sb.WriteString(d)
			sb.WriteByte('\n')
		}
	}
	if extra != "" {
		sb.WriteString("(assert " + extra + ")\n")
	}
	sb.WriteString("(assert (not ")
	sb.WriteString(o.Goal)
	sb.WriteString("))\n(check-sat)\n")
	return sb.String()
}

type solverSpec struct {
	name string
	args func(file string, secs int) []string
}

// Solver limits are CPU-time limits (ulimit -t), not wall-clock limits, so that a
// loaded machine makes a check slower instead of turning proofs into timeouts.
var solvers = []solverSpec{
	{"z3-new", func(f string, s int) []string { return []string{"z3-new", f} }},
	{"cvc5", func(f string, s int) []string { return []string{"cvc5", "--produce-models", f} }},
	{"z3", func(f string, s int) []string { return []string{"z3", f} }},
}

func runSolver(ctx context.Context, sp solverSpec, file string, secs int, wantModel bool) (status, out string, dur float64) {
	args := sp.args(file, secs)
	start := time.Now()
	cctx, cancel := context.WithTimeout(ctx, time.Duration(secs*40+120)*time.Second)
	defer cancel()
	sh := append([]string{"-c", fmt.Sprintf("ulimit -t %d; exec \"$@\"", secs), "sh"}, args...)
	cmd := exec.CommandContext(cctx, "/bin/sh", sh...)
	var buf bytes.Buffer
	cmd.Stdout = &buf
	cmd.Stderr = &buf
	_ = cmd.Run()
	dur = time.Since(start).Seconds()
	out = buf.String()
	first := ""
	for _, l := range strings.Split(out, "\n") {
		l = strings.TrimSpace(l)
		if l == "" || strings.HasPrefix(l, "WARNING") {
			continue // solver warnings (e.g. about a pattern) precede the answer
		}
		first = l
		break
	}
	switch first {
	case "unsat", "sat", "unknown":
		status = first
	case "timeout":
		status = "timeout"
	default:
		if cctx.Err() != nil || cmd.ProcessState == nil || !cmd.ProcessState.Exited() {
			status = "timeout" // killed by the CPU limit (SIGXCPU/SIGKILL) or by the wall-clock guard
		} else {
			status = "error"
		}
	}
	return
}

// solve runs the portfolio on one obligation.
func solveOne(o *Obligation, dir string, idx int, secs int) {
	file := filepath.Join(dir, fmt.Sprintf("o%05d.smt2", idx))
	text := o.smt()
	if len(text) > 4<<20 {
		o.Status, o.Output = "error", "VC too large"
		return
	}
	if err := os.WriteFile(file, []byte(text), 0o644); err != nil {
		o.Status, o.Output = "error", err.Error()
		return
	}
	defer os.Remove(file)
	quick := 4
	if secs < quick {
		quick = secs
	}
	// stage 1: z3 5.1 and cvc5 side by side with a small budget (each decides most
	// obligations in well under a second; which one does differs by obligation)
	st := ""
	{
		ctx1, cancel1 := context.WithCancel(context.Background())
		type r1 struct {
			st, out, name string
			d             float64
		}
		ch1 := make(chan r1, 2)
		for k, sp := range solvers[:2] {
			sp, k := sp, k
			go func() {
				if k == 1 {
					// cvc5 joins only when z3 has not answered within a second
					select {
					case <-ctx1.Done():
						ch1 <- r1{"cancelled", "", sp.name, 0}
						return
					case <-time.After(time.Second):
					}
				}
				s, o2, d2 := runSolver(ctx1, sp, file, quick, false)
				ch1 <- r1{s, o2, sp.name, d2}
			}()
		}
		for i := 0; i < 2; i++ {
			r := <-ch1
			o.Secs += r.d
			if r.st == "unsat" || (r.st == "sat" && r.name == solvers[0].name) {
				cancel1()
				o.Status, o.Solver, o.Output = r.st, r.name, r.out
				if r.st == "sat" {
					o.Model = getModel(file, text)
				}
				return
			}
			if r.name == solvers[0].name {
				st = r.st
			}
		}
		cancel1()
	}
	// proof by cases along the last control-flow join (the joined state is an if-then-else
	// of the edge states; with the edge condition asserted the solver sees one of them)
	if len(o.Cases) > 1 && st != "error" {
		cases := append([]string{}, o.Cases...)
		cases = append(cases, not(or(o.Cases...))) // exhaustive by construction
		all := true
		for k, cs := range cases {
			cf := filepath.Join(dir, fmt.Sprintf("o%05d.c%d.smt2", idx, k))
			if err := os.WriteFile(cf, []byte(o.smtWith(cs)), 0o644); err != nil {
				all = false
				break
			}
			cst, _, cd := runSolver(context.Background(), solvers[0], cf, 2*quick, false)
			os.Remove(cf)
			o.Secs += cd
			if cst != "unsat" {
				all = false
				break
			}
		}
		if all {
			o.Status, o.Solver, o.Output = "unsat", solvers[0].name+" (by cases)", "unsat"
			return
		}
	}
	// race
	ctx, cancel := context.WithCancel(context.Background())
	defer cancel()
	type res struct {
		st, out, name string
		d             float64
	}
	ch := make(chan res, len(solvers))
	for _, sp := range solvers {
		sp := sp
		go func() {
			s, o2, d2 := runSolver(ctx, sp, file, secs, false)
			ch <- res{s, o2, sp.name, d2}
		}()
	}
	var last res
	var outs []string
	for range solvers {
		r := <-ch
		o.Secs += r.d
		outs = append(outs, r.name+": "+r.st)
		if r.st == "unsat" || r.st == "sat" {
			cancel()
			o.Status, o.Solver, o.Output = r.st, r.name, r.out
			if r.st == "sat" {
				o.Model = getModel(file, text)
			}
			return
		}
		if last.st == "" || r.st == "unknown" {
			last = r
		}
	}
	o.Status, o.Solver = last.st, "portfolio"
	if o.Status == "error" {
		o.Output = last.out
	} else {
		o.Output = strings.Join(outs, "; ")
	}
}

// getModel re-runs z3-new for a model (z3 4.8 exits non-zero on get-model after unsat, so models are fetched only after sat).
func getModel(file, text string) string {
	mf := file + ".model.smt2"
	if err := os.WriteFile(mf, []byte(text+"(get-model)\n"), 0o644); err != nil {
		return ""
	}
	defer os.Remove(mf)
	ctx, cancel := context.WithTimeout(context.Background(), 20*time.Second)
	defer cancel()
	out, _ := exec.CommandContext(ctx, "z3-new", "-T:15", mf).CombinedOutput()
	s := string(out)
	if len(s) > 200000 {
		s = s[:200000]
	}
	return s
}

func solveAll(obls []*Obligation, secs int) {
	dir, err := os.MkdirTemp("", "gowp-smt-")
	if err != nil {
		panic(err)
	}
	defer os.RemoveAll(dir)
	var wg sync.WaitGroup
	sem := make(chan struct{}, runtime.NumCPU())
	for i, o := range obls {
		if o.Status != "" {
			continue
		}
		wg.Add(1)
		sem <- struct{}{}
		go func(i int, o *Obligation) {
			defer wg.Done()
			defer func() { <-sem }()
			solveOne(o, dir, i, secs)
		}(i, o)
	}
	wg.Wait()
}

// crossCheck (thorough tier): every obligation that one solver proved is given to a
// solver of a different family as well.  A second "unsat" is counted as confirmed, a
// timeout/unknown as unconfirmed (no verdict), a "sat" is a disagreement between
// solvers and is reported: the proof is then not trusted.
func crossCheck(obls []*Obligation, secs int) (confirmed, unconfirmed int, disagree []*Obligation) {
	dir, err := os.MkdirTemp("", "gowp-xc-")
	if err != nil {
		return
	}
	defer os.RemoveAll(dir)
	var mu sync.Mutex
	var wg sync.WaitGroup
	sem := make(chan struct{}, runtime.NumCPU())
	for i, o := range obls {
		if o.Status != "unsat" || o.Solver == "syntactic" || o.Kind == "cover" {
			continue
		}
		other := solvers[1] // cvc5
		if strings.HasPrefix(o.Solver, "cvc5") {
			other = solvers[0] // z3 5.1
		}
		wg.Add(1)
		sem <- struct{}{}
		go func(i int, o *Obligation, sp solverSpec) {
			defer wg.Done()
			defer func() { <-sem }()
			file := filepath.Join(dir, fmt.Sprintf("x%05d.smt2", i))
			if os.WriteFile(file, []byte(o.smt()), 0o644) != nil {
				return
			}
			st, _, d := runSolver(context.Background(), sp, file, secs, false)
			os.Remove(file)
			mu.Lock()
			defer mu.Unlock()
			o.Secs += d
			switch st {
			case "unsat":
				confirmed++
			case "sat":
				disagree = append(disagree, o)
			default:
				unconfirmed++
			}
		}(i, o, other)
	}
	wg.Wait()
	return
}
