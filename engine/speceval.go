package main

// Evaluation of contract expressions into SMT terms over a symbolic state.

import (
	"fmt"
	"go/constant"
	"go/types"
	"math/big"
	"strings"

	"golang.org/x/tools/go/ssa"
)

type SpecEnv struct {
	f     *Frame
	c     *Ctx
	vars  map[string]Val
	st    *State
	old   *State
	cells bool // identifiers resolve to the current values of local variables first
	pkg   *ssa.Package
	depth int
	pre   *State // loop invariants: the state at loop entry, for pre(e) and newer(x)
	prev  *State // back edge of a loop: the state at the head of the current iteration, for prev(e)
	loc   *State // state in which local variables are looked up (old(e) keeps the current locals)
}

func (f *Frame) specEnv(st, old *State, cells bool) *SpecEnv {
	env := &SpecEnv{f: f, c: f.c, vars: map[string]Val{}, st: st, old: old, cells: cells, pkg: f.fn.Pkg}
	if env.pkg == nil && f.fn.Parent() != nil {
		env.pkg = f.fn.Parent().Pkg
	}
	for n, v := range f.params {
		env.vars[n] = v
		if cells {
			env.vars[n+"0"] = v
		}
	}
	return env
}

func (e *SpecEnv) sub() *SpecEnv {
	n := *e
	n.vars = make(map[string]Val, len(e.vars))
	for k, v := range e.vars {
		n.vars[k] = v
	}
	return &n
}

type specErr struct{ msg string }

func (s specErr) Error() string { return "contract out of date or ill-typed: " + s.msg }

func sfail(format string, a ...interface{}) {
	panic(specErr{fmt.Sprintf(format, a...)})
}

func (e *SpecEnv) evalBool(x SExpr) string {
	v := e.eval(x, types.Typ[types.Bool])
	if v.T == nil || !isBool(v.T) {
		sfail("boolean expected: %s", x)
	}
	return v.S
}

func basicByName(n string) types.Type {
	for _, t := range types.Typ {
		if t.Name() == n {
			return t
		}
	}
	switch n {
	case "byte":
		return types.Typ[types.Uint8]
	case "rune":
		return types.Typ[types.Int32]
	}
	return nil
}

func (e *SpecEnv) typeByName(n string) types.Type {
	if strings.HasPrefix(n, "[]") {
		return types.NewSlice(e.typeByName(n[2:]))
	}
	if strings.HasPrefix(n, "*") {
		return types.NewPointer(e.typeByName(n[1:]))
	}
	if t := basicByName(n); t != nil {
		return t
	}
	switch n {
	case "text":
		return textType
	case "bytes": // a mathematical byte array (index -> byte)
		return types.NewArray(types.Typ[types.Uint8], 1<<40)
	case "ints": // a mathematical array of ints (index -> int), e.g. the value of a [N]int field
		return types.NewArray(types.Typ[types.Int], 1<<40)
	case "ByteSlice":
		return types.NewSlice(types.Typ[types.Uint8])
	case "interface{}", "any":
		return types.NewInterfaceType(nil, nil)
	case "error":
		return types.Universe.Lookup("error").Type()
	case "unsafe.Pointer":
		return types.Typ[types.UnsafePointer]
	}
	if i := strings.Index(n, "."); i >= 0 {
		pn, tn := n[:i], n[i+1:]
		if e.pkg != nil {
			for _, imp := range e.pkg.Pkg.Imports() {
				if imp.Name() == pn {
					if o := imp.Scope().Lookup(tn); o != nil {
						return o.Type()
					}
				}
			}
		}
		sfail("unknown type %s", n)
	}
	if e.pkg != nil {
		if o := e.pkg.Pkg.Scope().Lookup(n); o != nil {
			if tn, ok := o.(*types.TypeName); ok {
				return tn.Type()
			}
		}
	}
	sfail("unknown type %s", n)
	return nil
}

func (e *SpecEnv) typeFromExpr(x SExpr) types.Type {
	switch n := x.(type) {
	case *SIdent:
		return e.typeByName(n.Name)
	case *SField:
		return e.typeByName(n.String())
	case *SUnary:
		if n.Op == "*" {
			return types.NewPointer(e.typeFromExpr(n.X))
		}
	}
	sfail("type expected: %s", x)
	return nil
}

func isUntyped(t types.Type) bool {
	b, ok := t.(*types.Basic)
	return ok && b.Info()&types.IsUntyped != 0
}

func (e *SpecEnv) numLit(v *big.Int, hint types.Type) Val {
	t := hint
	if t == nil || !isInt(t) {
		t = types.Typ[types.UntypedInt]
	}
	return Val{T: t, S: e.c.intLit(v, t)}
}

func (e *SpecEnv) localVar(name string) (Val, bool) {
	st := e.st
	if e.loc != nil {
		st = e.loc
	}
	if e.f == nil || st == nil {
		return Val{}, false
	}
	for i := len(st.order) - 1; i >= 0; i-- {
		a := st.order[i]
		if a.Comment == name && a.Parent() == e.f.fn {
			if pv, ok := st.ptrs[a]; ok {
				return pv, true
			}
			if t, ok := st.cells[a]; ok {
				return Val{T: a.Type().(*types.Pointer).Elem(), S: t}, true
			}
			if r, ok := st.hrefs[a]; ok {
				// escaping local: its value lives in the heap (read in the state the expression is evaluated in)
				et := a.Type().(*types.Pointer).Elem()
				hst := e.st
				if hst == nil {
					hst = st
				}
				return Val{T: et, S: e.c.load(hst, &Path{Kind: rootHeap, T: et, Ref: r})}, true
			}
		}
	}
	return Val{}, false
}

// arrText: the text of n bytes at index off of a byte array term.
func (e *SpecEnv) arrText(arr, off, n string) Val {
	c := e.c
	c.sortOf(textType)
	c.declStrEq()
	c.decl("fn:txt", "(declare-fun txt (Str) Txt)")
	c.decl("ax:txt", "(assert (forall ((a!t Str) (b!t Str)) (! (= (streq a!t b!t) (= (txt a!t) (txt b!t))) :pattern ((txt a!t) (txt b!t)))))")
	return Val{T: textType, S: fmt.Sprintf("(txt (mkstr %s %s %s 0))", arr, off, n)}
}

// localCellPath: the storage location of a named escaping local (a heap cell).
func (e *SpecEnv) localCellPath(name string) (*Path, types.Type, bool) {
	st := e.st
	if e.loc != nil {
		st = e.loc
	}
	if e.f == nil || st == nil {
		return nil, nil, false
	}
	for i := len(st.order) - 1; i >= 0; i-- {
		a := st.order[i]
		if a.Comment == name && a.Parent() == e.f.fn {
			if r, ok := st.hrefs[a]; ok {
				et := a.Type().(*types.Pointer).Elem()
				return &Path{Kind: rootHeap, T: et, Ref: r}, et, true
			}
			return nil, nil, false
		}
	}
	return nil, nil, false
}

func (e *SpecEnv) eval(x SExpr, hint types.Type) Val {
	c := e.c
	switch n := x.(type) {
	case *SNum:
		v, ok := new(big.Int).SetString(n.V, 0)
		if !ok {
			sfail("bad number %s", n.V)
		}
		return e.numLit(v, hint)
	case *SBool:
		if n.V {
			return Val{T: types.Typ[types.Bool], S: "true"}
		}
		return Val{T: types.Typ[types.Bool], S: "false"}
	case *SStr:
		return Val{T: types.Typ[types.String], S: c.strConst(n.V)}
	case *SNil:
		if hint != nil {
			return Val{T: hint, S: c.zero(hint)}
		}
		return Val{T: types.Typ[types.UntypedNil], S: "0"}
	case *SIdent:
		return e.ident(n.Name, hint)
	case *SOld:
		if e.old == nil {
			sfail("old() not available here: %s", x)
		}
		o := e.sub()
		o.st = e.old
		if o.loc == nil {
			o.loc = e.st // local variables keep their current values inside old(...)
		}
		return o.eval(n.X, hint)
	case *SIte:
		cnd := e.evalBool(n.C)
		a := e.eval(n.A, hint)
		b := e.eval(n.B, a.T)
		if isUntyped(a.T) && !isUntyped(b.T) {
			a = e.eval(n.A, b.T)
		}
		return Val{T: a.T, S: ite(cnd, a.S, b.S)}
	case *SUnary:
		return e.unary(n, hint)
	case *SBinary:
		return e.binary(n, hint)
	case *SField:
		return e.field(n)
	case *SIndex:
		return e.index(n)
	case *SSlice:
		return e.slice(n)
	case *SCall:
		return e.call(n, hint)
	case *SQuant:
		return e.quant(n)
	}
	sfail("cannot evaluate %s", x)
	return Val{}
}

func (e *SpecEnv) ghostType(name string) (types.Type, bool) {
	tn, ok := e.c.eng.ghosts[name]
	if !ok {
		return nil, false
	}
	if tn == "bytes" {
		return types.NewArray(types.Typ[types.Uint8], 1<<40), true
	}
	if tn == "refset" { // set of references (ownership ghost state)
		return types.NewArray(types.Typ[types.Bool], 1<<40), true
	}
	return e.typeByName(tn), true
}

func (e *SpecEnv) ident(name string, hint types.Type) Val {
	c := e.c
	if strings.HasPrefix(name, "$") {
		t, ok := e.ghostType(name)
		if !ok {
			sfail("undeclared ghost variable %s", name)
		}
		if e.st == nil {
			sfail("ghost variable %s used in a state-free context", name)
		}
		return Val{T: t, S: c.heap(e.st, name, c.sortOf(t))}
	}
	if e.cells {
		if v, ok := e.localVar(name); ok {
			return v
		}
	}
	if v, ok := e.vars[name]; ok {
		return v
	}
	if !e.cells {
		// ensures may mention locals? no. fallthrough
	}
	// package-level object
	if e.pkg != nil {
		if o := e.pkg.Pkg.Scope().Lookup(name); o != nil {
			return e.pkgObject(e.pkg, o, hint)
		}
	}
	// spec constant functions with no args
	if pf := c.eng.pure(e.pkgPath(), name); pf != nil && len(pf.Params) == 0 {
		return e.callPure(pf, nil, hint)
	}
	sfail("unknown identifier %q", name)
	return Val{}
}

func (e *SpecEnv) pkgPath() string {
	if e.pkg == nil {
		return ""
	}
	return e.pkg.Pkg.Path()
}

func (e *SpecEnv) pkgObject(pkg *ssa.Package, o types.Object, hint types.Type) Val {
	c := e.c
	switch ob := o.(type) {
	case *types.Const:
		t := ob.Type()
		if isUntyped(t) && hint != nil && (isInt(hint) || isBool(hint) || isString(hint) || isFloat(hint)) {
			t = hint
		}
		switch {
		case isBool(t):
			if constant.BoolVal(ob.Val()) {
				return Val{T: t, S: "true"}
			}
			return Val{T: t, S: "false"}
		case isInt(t):
			iv := constant.ToInt(ob.Val())
			v, _ := new(big.Int).SetString(iv.ExactString(), 10)
			return Val{T: t, S: c.intLit(v, t)}
		case isString(t):
			return Val{T: t, S: c.strConst(constant.StringVal(ob.Val()))}
		case isFloat(t):
			fv, _ := constant.Float64Val(ob.Val())
			return Val{T: t, S: c.floatLit(fv, t)}
		}
		sfail("constant %s of unsupported type %s", ob.Name(), t)
	case *types.Var:
		var g *ssa.Global
		if pkg != nil {
			if m, ok := pkg.Members[ob.Name()].(*ssa.Global); ok {
				g = m
			}
		}
		if g == nil {
			if sp := c.eng.prog.Package(ob.Pkg()); sp != nil {
				if m, ok := sp.Members[ob.Name()].(*ssa.Global); ok {
					g = m
				}
			}
		}
		if g == nil {
			sfail("no global for %s", ob.Name())
		}
		if e.st == nil {
			sfail("global %s used in a state-free context", ob.Name())
		}
		p := &Path{Kind: rootGlobal, Glob: g}
		return Val{T: ob.Type(), S: c.load(e.st, p)}
	case *types.Func:
		if pkg != nil {
			if fn := pkg.Func(ob.Name()); fn != nil {
				return Val{T: ob.Type(), Fn: fn, S: c.funcRef(fn)}
			}
		}
		if sp := c.eng.prog.Package(ob.Pkg()); sp != nil {
			if fn := sp.Func(ob.Name()); fn != nil {
				return Val{T: ob.Type(), Fn: fn, S: c.funcRef(fn)}
			}
		}
	}
	sfail("unsupported package-level object %s", o.Name())
	return Val{}
}

func (e *SpecEnv) unary(n *SUnary, hint types.Type) Val {
	c := e.c
	switch n.Op {
	case "&": // address of an lvalue (a structural pointer)
		lv := e.lvalue(n.X)
		if lv.path == nil || lv.whole {
			sfail("cannot take the address of %s", n.X)
		}
		return Val{T: types.NewPointer(lv.t), P: lv.path}
	case "!":
		return Val{T: types.Typ[types.Bool], S: not(e.evalBool(n.X))}
	case "-":
		v := e.eval(n.X, hint)
		if k, ok := constInt(v.S); ok && c.mode == "int" {
			return Val{T: v.T, S: c.intLit(new(big.Int).Neg(k), v.T)}
		}
		if c.mode == "bv" {
			return Val{T: v.T, S: fmt.Sprintf("(bvneg %s)", v.S)}
		}
		return Val{T: v.T, S: fmt.Sprintf("(- %s)", v.S)}
	case "^":
		v := e.eval(n.X, hint)
		if c.mode == "bv" {
			return Val{T: v.T, S: fmt.Sprintf("(bvnot %s)", v.S)}
		}
		sfail("^x needs bv mode")
	case "*":
		v := e.eval(n.X, nil)
		return e.deref(v)
	}
	sfail("unary %s", n.Op)
	return Val{}
}

func (e *SpecEnv) deref(v Val) Val {
	c := e.c
	if len(v.Alts) > 0 {
		// guarded alternatives: the value at whichever location the pointer designates (nil: unconstrained)
		var res Val
		term := ""
		for i := len(v.Alts) - 1; i >= 0; i-- {
			a := v.Alts[i]
			if a.P == nil {
				continue
			}
			d := e.deref(Val{T: v.T, P: a.P})
			if term == "" {
				term = d.S
			} else {
				term = ite(a.Cond, d.S, term)
			}
			res = d
		}
		if term == "" {
			sfail("dereference of a pointer that is nil on every path")
		}
		res.S = term
		return res
	}
	if v.P != nil {
		t := c.targetType(v.P)
		if e.f != nil && e.st != nil {
			if vf, ok := e.f.viewFieldIn(v.P, e.st); ok {
				return vf.load()
			}
		}
		return Val{T: t, S: c.load(e.st, v.P)}
	}
	pt, ok := v.T.Underlying().(*types.Pointer)
	if !ok {
		sfail("dereference of non-pointer %s", v.T)
	}
	if e.st == nil {
		sfail("heap access in a state-free context")
	}
	p := &Path{Kind: rootHeap, T: pt.Elem(), Ref: v.S}
	return Val{T: pt.Elem(), S: c.load(e.st, p)}
}

func (e *SpecEnv) field(n *SField) Val {
	c := e.c
	// qualified identifier pkg.Name
	if id, ok := n.X.(*SIdent); ok && e.pkg != nil {
		if _, isVar := e.vars[id.Name]; !isVar {
			if _, isLocal := e.localVar(id.Name); !isLocal || !e.cells {
				for _, imp := range e.pkg.Pkg.Imports() {
					if imp.Name() == id.Name {
						o := imp.Scope().Lookup(n.Name)
						if o == nil {
							sfail("unknown %s.%s", id.Name, n.Name)
						}
						return e.pkgObject(c.eng.prog.Package(imp), o, nil)
					}
				}
			}
		}
	}
	v := e.eval(n.X, nil)
	// auto-deref
	if len(v.Alts) > 0 {
		v = e.deref(v)
	} else if _, isPtr := v.T.Underlying().(*types.Pointer); isPtr || (v.P != nil && !isUnsafePtr(v.T)) {
		if v.P != nil {
			// structural pointer: field through path
			tt := c.targetType(v.P)
			st, ok := tt.Underlying().(*types.Struct)
			if !ok {
				sfail("field %s of non-struct %s", n.Name, tt)
			}
			idx := fieldIndex(st, n.Name)
			if idx < 0 {
				sfail("no field %s in %s", n.Name, tt)
			}
			q := *v.P
			q.Steps = append(append([]Step{}, v.P.Steps...), Step{Field: idx})
			if v.P.View == nil {
				q.View = nil
			}
			if e.f != nil {
				if vf, ok := e.f.viewFieldIn(&q, e.st); ok {
					return vf.load()
				}
			}
			return Val{T: st.Field(idx).Type(), S: c.load(e.st, &q)}
		}
		// pointer to a heap struct: read the field's own heap directly
		if pt, ok := v.T.Underlying().(*types.Pointer); ok && e.st != nil && !isGoSliceLike(pt.Elem()) && !isGoStringLike(pt.Elem()) {
			if st, ok := pt.Elem().Underlying().(*types.Struct); ok {
				if idx := fieldIndex(st, n.Name); idx >= 0 {
					p := &Path{Kind: rootHeap, T: pt.Elem(), Ref: v.S, Steps: []Step{{Field: idx}}}
					t := c.load(e.st, p)
					// memory contents are well-typed (integer ranges, slice and string shapes)
					if !strings.Contains(t, "!q") {
						if inv := c.typeInv(t, st.Field(idx).Type()); inv != "true" {
							c.assume(inv)
						}
					}
					return Val{T: st.Field(idx).Type(), S: t}
				}
			}
		}
		v = e.deref(v)
	}
	if isGoSliceLike(v.T) && v.S != "" {
		switch n.Name {
		case "Len":
			return Val{T: types.Typ[types.Int], S: fmt.Sprintf("(xlen %s)", v.S)}
		case "Cap":
			return Val{T: types.Typ[types.Int], S: fmt.Sprintf("(xcap %s)", v.S)}
		case "Ptr":
			off := fmt.Sprintf("(xoff %s)", v.S)
			return Val{T: types.Typ[types.UnsafePointer], P: &Path{Kind: rootArr, T: types.Typ[types.Uint8], Ref: fmt.Sprintf("(sbase %s)", v.S), Steps: []Step{{IsIdx: true, Idx: off, Raw: true}}, Lo: off, Hi: c.idxAdd(off, fmt.Sprintf("(xcap %s)", v.S))}}
		}
	}
	st, ok := v.T.Underlying().(*types.Struct)
	if !ok {
		sfail("field %s of non-struct %s in %s", n.Name, v.T, n)
	}
	// promoted fields through embedded structs
	idx := fieldIndex(st, n.Name)
	if idx < 0 {
		for i := 0; i < st.NumFields(); i++ {
			if st.Field(i).Embedded() {
				if es, ok := st.Field(i).Type().Underlying().(*types.Struct); ok {
					if j := fieldIndex(es, n.Name); j >= 0 {
						inner := fmt.Sprintf("(%s %s)", c.fieldSel(c.sortOf(v.T), st, i), v.S)
						return Val{T: es.Field(j).Type(), S: fmt.Sprintf("(%s %s)", c.fieldSel(c.sortOf(st.Field(i).Type()), es, j), inner)}
					}
				}
			}
		}
		sfail("no field %s in %s", n.Name, v.T)
	}
	return Val{T: st.Field(idx).Type(), S: fmt.Sprintf("(%s %s)", c.fieldSel(c.sortOf(v.T), st, idx), v.S)}
}

func fieldIndex(st *types.Struct, name string) int {
	for i := 0; i < st.NumFields(); i++ {
		if st.Field(i).Name() == name {
			return i
		}
	}
	return -1
}

func (e *SpecEnv) index(n *SIndex) Val {
	c := e.c
	v := e.eval(n.X, nil)
	if m, ok := c.mapModelOf(v.T); ok && v.S != "" {
		// m[k]: the stored value, or the zero value when k is absent
		if e.st == nil {
			sfail("map contents in a state-free context: %s", n)
		}
		kv := e.eval(n.I, m.keyT)
		key := c.mapKey(m, kv)
		return Val{T: m.elemT, S: fmt.Sprintf("(ite %s %s %s)", c.mapHas(e.st, m, v.S, key), c.mapVal(e.st, m, v.S, key), c.zero(m.elemT))}
	}
	iv := e.eval(n.I, types.Typ[types.Int])
	idx := c.toIdx(iv.S, iv.T)
	if v.P != nil && len(v.P.Steps) > 0 && v.P.Steps[len(v.P.Steps)-1].IsIdx && (isUnsafePtr(v.T) || isInt(v.T)) {
		// raw byte pointer indexed: p[i] means byte at offset i
		q := *v.P
		q.Steps = append([]Step{}, v.P.Steps...)
		q.Steps[len(q.Steps)-1].Idx = c.idxAdd(q.Steps[len(q.Steps)-1].Idx, idx)
		return Val{T: c.naturalType(&q), S: c.load(e.st, &q)}
	}
	if _, isPtr := v.T.Underlying().(*types.Pointer); isPtr {
		v = e.deref(v)
	}
	if isGoSliceLike(v.T) {
		if e.st == nil {
			sfail("slice contents in a state-free context: %s", n)
		}
		hn, hs := c.heapNameArr(types.Typ[types.Uint8])
		return Val{T: types.Typ[types.Uint8], S: c.arrAt(c.byteSort(), fmt.Sprintf("(select %s (sbase %s))", c.heap(e.st, hn, hs), v.S), fmt.Sprintf("(xoff %s)", v.S), idx)}
	}
	switch u := v.T.Underlying().(type) {
	case *types.Basic:
		if isString(v.T) {
			return Val{T: types.Typ[types.Uint8], S: c.arrAt(c.byteSort(), fmt.Sprintf("(sarr %s)", v.S), fmt.Sprintf("(soff %s)", v.S), idx)}
		}
	case *types.Slice:
		if e.st == nil {
			sfail("slice contents in a state-free context: %s", n)
		}
		hn, hs := c.heapNameArr(u.Elem())
		return Val{T: u.Elem(), S: c.arrAt(c.sortOf(u.Elem()), fmt.Sprintf("(select %s (sbase %s))", c.heap(e.st, hn, hs), v.S), fmt.Sprintf("(xoff %s)", v.S), idx)}
	case *types.Array:
		return Val{T: u.Elem(), S: fmt.Sprintf("(select %s %s)", v.S, idx)}
	}
	sfail("cannot index %s (type %s)", n.X, v.T)
	return Val{}
}

func (e *SpecEnv) slice(n *SSlice) Val {
	c := e.c
	v := e.eval(n.X, nil)
	lo := c.idxLit(0)
	if n.Lo != nil {
		l := e.eval(n.Lo, types.Typ[types.Int])
		lo = c.toIdx(l.S, l.T)
	}
	switch v.T.Underlying().(type) {
	case *types.Basic:
		if isString(v.T) {
			hi := fmt.Sprintf("(slen %s)", v.S)
			if n.Hi != nil {
				h := e.eval(n.Hi, types.Typ[types.Int])
				hi = c.toIdx(h.S, h.T)
			}
			return Val{T: v.T, S: fmt.Sprintf("(mkstr (sarr %s) %s %s (sown %s))", v.S, c.idxAdd(fmt.Sprintf("(soff %s)", v.S), lo), c.idxSub(hi, lo), v.S)}
		}
	case *types.Slice:
		hi := fmt.Sprintf("(xlen %s)", v.S)
		if n.Hi != nil {
			h := e.eval(n.Hi, types.Typ[types.Int])
			hi = c.toIdx(h.S, h.T)
		}
		return Val{T: v.T, S: fmt.Sprintf("(mkslice (sbase %s) %s %s %s)", v.S, c.idxAdd(fmt.Sprintf("(xoff %s)", v.S), lo), c.idxSub(hi, lo), c.idxSub(fmt.Sprintf("(xcap %s)", v.S), lo))}
	}
	sfail("cannot slice %s", n.X)
	return Val{}
}

func (e *SpecEnv) unify(a, b Val, ax, bx SExpr) (Val, Val, types.Type) {
	// give untyped constants the type of the other side; widen in bv mode
	if isUntyped(a.T) && !isUntyped(b.T) {
		a = e.eval(ax, b.T)
	} else if isUntyped(b.T) && !isUntyped(a.T) {
		b = e.eval(bx, a.T)
	}
	t := a.T
	if isUntyped(t) {
		t = b.T
	}
	if e.c.mode == "bv" && isInt(a.T) && isInt(b.T) {
		ab, as, _ := intInfo(a.T)
		bb, bs, _ := intInfo(b.T)
		if ab < bb {
			a = Val{T: b.T, S: e.c.convInt(a.S, a.T, b.T)}
			t = b.T
			_ = as
		} else if bb < ab {
			b = Val{T: a.T, S: e.c.convInt(b.S, b.T, a.T)}
			t = a.T
			_ = bs
		}
	}
	return a, b, t
}

func (e *SpecEnv) binary(n *SBinary, hint types.Type) Val {
	c := e.c
	B := types.Typ[types.Bool]
	switch n.Op {
	case "&&":
		return Val{T: B, S: and(e.evalBool(n.X), e.evalBool(n.Y))}
	case "||":
		return Val{T: B, S: or(e.evalBool(n.X), e.evalBool(n.Y))}
	case "==>":
		return Val{T: B, S: implies(e.evalBool(n.X), e.evalBool(n.Y))}
	case "<==>":
		return Val{T: B, S: fmt.Sprintf("(= %s %s)", e.evalBool(n.X), e.evalBool(n.Y))}
	}
	if cmpOps[n.Op] {
		a := e.eval(n.X, nil)
		b := e.eval(n.Y, a.T)
		a, b, t := e.unify(a, b, n.X, n.Y)
		if isUntyped(t) {
			t = types.Typ[types.Int]
		}
		if isString(t) {
			if e.f != nil {
				eq := e.f.strEq(a.S, b.S)
				if n.Op == "==" {
					return Val{T: B, S: eq}
				} else if n.Op == "!=" {
					return Val{T: B, S: not(eq)}
				}
			}
			sfail("string comparison %s", n.Op)
		}
		if _, isSlice := t.Underlying().(*types.Slice); isSlice {
			// comparison with nil
			var s Val
			if _, isNil := n.Y.(*SNil); isNil {
				s = a
			} else if _, isNil := n.X.(*SNil); isNil {
				s = b
			} else {
				return Val{T: B, S: c.cmp(n.Op, a.S, b.S, t)}
			}
			eq := fmt.Sprintf("(= (sbase %s) 0)", s.S)
			if n.Op == "!=" {
				eq = not(eq)
			}
			return Val{T: B, S: eq}
		}
		as, bs := a.S, b.S
		if (a.P != nil || len(a.Alts) > 0) && e.f != nil {
			as = e.f.ptrTerm(a)
		}
		if (b.P != nil || len(b.Alts) > 0) && e.f != nil {
			bs = e.f.ptrTerm(b)
		}
		return Val{T: B, S: c.cmp(n.Op, as, bs, t)}
	}
	a := e.eval(n.X, hint)
	b := e.eval(n.Y, a.T)
	if n.Op == "<<" || n.Op == ">>" {
		if isUntyped(a.T) && hint != nil {
			a = e.eval(n.X, hint)
		}
		if isUntyped(b.T) {
			b = e.eval(n.Y, types.Typ[types.Uint])
		}
		if c.mode == "int" {
			if ka, ok := constInt(a.S); ok {
				if kb, ok2 := constInt(b.S); ok2 && n.Op == "<<" {
					return Val{T: a.T, S: c.intLit(new(big.Int).Lsh(ka, uint(kb.Int64())), a.T)}
				}
			}
		}
		t, _, _ := c.arith(n.Op, a.S, b.S, a.T, b.T)
		return Val{T: a.T, S: t}
	}
	a, b, t := e.unify(a, b, n.X, n.Y)
	if isUntyped(t) && hint != nil && isInt(hint) {
		t = hint
		a = e.eval(n.X, hint)
		b = e.eval(n.Y, hint)
	}
	if c.mode == "int" {
		// constant folding keeps terms small
		if ka, ok := constInt(a.S); ok {
			if kb, ok2 := constInt(b.S); ok2 {
				r := new(big.Int)
				switch n.Op {
				case "+":
					return Val{T: t, S: c.intLit(r.Add(ka, kb), t)}
				case "-":
					return Val{T: t, S: c.intLit(r.Sub(ka, kb), t)}
				case "*":
					return Val{T: t, S: c.intLit(r.Mul(ka, kb), t)}
				case "|":
					return Val{T: t, S: c.intLit(r.Or(ka, kb), t)}
				case "&":
					return Val{T: t, S: c.intLit(r.And(ka, kb), t)}
				}
			}
		}
	}
	if a.P != nil && e.f != nil {
		// raw pointer + offset
		q := *a.P
		n2 := len(q.Steps)
		if n2 > 0 && q.Steps[n2-1].IsIdx && (n.Op == "+" || n.Op == "-") {
			q.Steps = append([]Step{}, a.P.Steps...)
			d := c.toIdx(b.S, b.T)
			if n.Op == "+" {
				q.Steps[n2-1].Idx = c.idxAdd(q.Steps[n2-1].Idx, d)
			} else {
				q.Steps[n2-1].Idx = c.idxSub(q.Steps[n2-1].Idx, d)
			}
			return Val{T: a.T, P: &q}
		}
	}
	term, _, _ := c.arith(n.Op, a.S, b.S, t, b.T)
	return Val{T: t, S: term}
}

func (e *SpecEnv) quant(n *SQuant) Val {
	c := e.c
	sub := e.sub()
	var binders []string
	var guards []string
	for _, v := range n.Vars {
		t := e.typeByName(v.Type)
		c.nfresh++
		name := fmt.Sprintf("%s!q%d", sanitize(v.Name), c.nfresh)
		binders = append(binders, fmt.Sprintf("(%s %s)", name, c.sortOf(t)))
		sub.vars[v.Name] = Val{T: t, S: name}
		if g := c.typeInv(name, t); g != "true" && isInt(t) {
			_, signed, _ := intInfo(t)
			bits, _, _ := intInfo(t)
			if !(signed && bits == 64) { // int/int64 quantifiers range over all mathematical integers (harmless)
				guards = append(guards, g)
			}
		}
	}
	body := sub.evalBool(n.Body)
	pat := ""
	for _, p := range n.Pats {
		var ts []string
		for _, pe := range p {
			ts = append(ts, sub.eval(pe, nil).S)
		}
		pat += " :pattern (" + strings.Join(ts, " ") + ")"
	}
	q := "forall"
	if n.Forall {
		body = implies(and(guards...), body)
	} else {
		q = "exists"
		body = and(append(guards, body)...)
	}
	if pat != "" {
		body = "(! " + body + pat + ")"
	}
	return Val{T: types.Typ[types.Bool], S: fmt.Sprintf("(%s (%s) %s)", q, strings.Join(binders, " "), body)}
}

func (e *SpecEnv) call(n *SCall, hint types.Type) Val {
	c := e.c
	I := types.Typ[types.Int]
	switch n.Fn {
	case "len", "cap":
		if len(n.Args) != 1 {
			sfail("%s takes one argument", n.Fn)
		}
		v := e.eval(n.Args[0], nil)
		if _, isPtr := v.T.Underlying().(*types.Pointer); isPtr {
			v = e.deref(v)
		}
		var t string
		if m, ok := c.mapModelOf(v.T); ok && n.Fn == "len" {
			if e.st == nil {
				sfail("len(map) in a state-free context")
			}
			return Val{T: I, S: c.mapLen(e.st, m, v.S)}
		}
		if isGoSliceLike(v.T) {
			if n.Fn == "len" {
				return Val{T: I, S: fmt.Sprintf("(xlen %s)", v.S)}
			}
			return Val{T: I, S: fmt.Sprintf("(xcap %s)", v.S)}
		}
		switch u := v.T.Underlying().(type) {
		case *types.Basic:
			if !isString(v.T) {
				sfail("len of %s", v.T)
			}
			t = fmt.Sprintf("(slen %s)", v.S)
		case *types.Slice:
			if n.Fn == "len" {
				t = fmt.Sprintf("(xlen %s)", v.S)
			} else {
				t = fmt.Sprintf("(xcap %s)", v.S)
			}
		case *types.Array:
			t = c.idxLit(u.Len())
		default:
			sfail("len of %s", v.T)
		}
		return Val{T: I, S: t}
	case "base":
		v := e.eval(n.Args[0], nil)
		if _, isPtr := v.T.Underlying().(*types.Pointer); isPtr {
			v = e.deref(v)
		}
		return Val{T: I, S: fmt.Sprintf("(sbase %s)", v.S)}
	case "off":
		v := e.eval(n.Args[0], nil)
		if isString(v.T) {
			return Val{T: I, S: fmt.Sprintf("(soff %s)", v.S)}
		}
		return Val{T: I, S: fmt.Sprintf("(xoff %s)", v.S)}
	case "allocated": // the reference denotes an object that exists in the current state
		v := e.eval(n.Args[0], nil)
		r := v.S
		if _, isSlice := v.T.Underlying().(*types.Slice); isSlice {
			r = fmt.Sprintf("(sbase %s)", v.S)
		}
		if e.st == nil {
			sfail("allocated() in a state-free context")
		}
		return Val{T: types.Typ[types.Bool], S: fmt.Sprintf("(< (born %s) %s)", r, c.now(e.st))}
	case "fresh", "alive":
		v := e.eval(n.Args[0], nil)
		s := v.S
		if _, isSlice := v.T.Underlying().(*types.Slice); isSlice || isGoSliceLike(v.T) {
			s = fmt.Sprintf("(sbase %s)", v.S)
		}
		if e.st == nil {
			sfail("%s() in a state-free context", n.Fn)
		}
		ref := e.st
		if e.old != nil {
			ref = e.old
		}
		if n.Fn == "alive" {
			// existed when the function (or the callee, at a call site) started
			return Val{T: types.Typ[types.Bool], S: fmt.Sprintf("(and (> %s 0) (< (born %s) %s))", s, s, c.now(ref))}
		}
		// allocated during the function (or by the callee): distinct from everything that existed at its start
		return Val{T: types.Typ[types.Bool], S: fmt.Sprintf("(and (> %s 0) (>= (born %s) %s) (< (born %s) %s))", s, s, c.now(ref), s, c.now(e.st))}
	case "ptrindex": // index of a raw byte pointer within its array
		v := e.eval(n.Args[0], nil)
		if v.P == nil || len(v.P.Steps) == 0 || !v.P.Steps[len(v.P.Steps)-1].IsIdx {
			sfail("ptrindex of non raw pointer %s", n.Args[0])
		}
		return Val{T: I, S: v.P.Steps[len(v.P.Steps)-1].Idx}
	case "ptrlo", "ptrhi": // bounds of the memory a raw pointer was derived from (index range [lo, hi))
		v := e.eval(n.Args[0], nil)
		if v.P == nil || v.P.Lo == "" || v.P.Hi == "" {
			sfail("%s: pointer without a known valid range: %s", n.Fn, n.Args[0])
		}
		if n.Fn == "ptrlo" {
			return Val{T: I, S: v.P.Lo}
		}
		return Val{T: I, S: v.P.Hi}
	case "rawtxt", "rawtxtat": // text of n bytes starting at a raw pointer / at absolute index lo of its array
		v := e.eval(n.Args[0], nil)
		if v.P == nil || len(v.P.Steps) != 1 || !v.P.Steps[0].IsIdx {
			sfail("%s: not a raw byte pointer: %s (S=%q P=%v alts=%d)", n.Fn, n.Args[0], v.S, v.P, len(v.Alts))
		}
		start := v.P.Steps[0].Idx
		cntArg := n.Args[1]
		if n.Fn == "rawtxtat" {
			lo := e.eval(n.Args[1], I)
			start = c.toIdx(lo.S, lo.T)
			cntArg = n.Args[2]
		}
		cnt := e.eval(cntArg, I)
		var arr string
		switch v.P.Kind {
		case rootArr:
			if e.st == nil {
				sfail("rawtxt in a state-free context")
			}
			hn, hs := c.heapNameArr(types.Typ[types.Uint8])
			arr = fmt.Sprintf("(select %s %s)", c.heap(e.st, hn, hs), v.P.Ref)
		case rootStrArr:
			arr = v.P.Ref
		default:
			sfail("rawtxt: unsupported pointer root")
		}
		return e.arrText(arr, start, c.toIdx(cnt.S, cnt.T))
	case "arrtxt": // text of n bytes at index o of a mathematical byte array
		a := e.eval(n.Args[0], nil)
		o := e.eval(n.Args[1], I)
		cnt := e.eval(n.Args[2], I)
		return e.arrText(a.S, c.toIdx(o.S, o.T), c.toIdx(cnt.S, cnt.T))
	case "subtxt": // text of s[lo : lo+n] for a string or byte slice
		a := e.eval(n.Args[0], nil)
		lo := e.eval(n.Args[1], I)
		cnt := e.eval(n.Args[2], I)
		if isByteSlice(a.T) || isGoSliceLike(a.T) {
			if e.st == nil {
				sfail("subtxt(bytes) in a state-free context")
			}
			hn, hs := c.heapNameArr(types.Typ[types.Uint8])
			return e.arrText(fmt.Sprintf("(select %s (sbase %s))", c.heap(e.st, hn, hs), a.S), c.idxAdd(fmt.Sprintf("(xoff %s)", a.S), c.toIdx(lo.S, lo.T)), c.toIdx(cnt.S, cnt.T))
		}
		if !isString(a.T) {
			sfail("subtxt() takes a string or []byte")
		}
		return e.arrText(fmt.Sprintf("(sarr %s)", a.S), c.idxAdd(fmt.Sprintf("(soff %s)", a.S), c.toIdx(lo.S, lo.T)), c.toIdx(cnt.S, cnt.T))
	case "rawat": // byte at absolute index j of the array a raw pointer points into
		v := e.eval(n.Args[0], nil)
		j := e.eval(n.Args[1], I)
		if v.P == nil || len(v.P.Steps) != 1 {
			sfail("rawat: not a raw byte pointer")
		}
		var arr string
		switch v.P.Kind {
		case rootArr:
			hn, hs := c.heapNameArr(types.Typ[types.Uint8])
			arr = fmt.Sprintf("(select %s %s)", c.heap(e.st, hn, hs), v.P.Ref)
		case rootStrArr:
			arr = v.P.Ref
		default:
			sfail("rawat: unsupported pointer root")
		}
		return Val{T: types.Typ[types.Uint8], S: fmt.Sprintf("(select %s %s)", arr, c.toIdx(j.S, j.T))}
	case "ptrbase":
		v := e.eval(n.Args[0], nil)
		if v.P == nil || v.P.Kind != rootArr {
			sfail("ptrbase of non array pointer %s", n.Args[0])
		}
		return Val{T: I, S: v.P.Ref}
	case "addr": // address of a package-level variable
		id, ok := n.Args[0].(*SIdent)
		if !ok || e.pkg == nil {
			sfail("addr(<global>)")
		}
		g, ok := e.pkg.Members[id.Name].(*ssa.Global)
		if !ok {
			sfail("addr(%s): not a package-level variable", id.Name)
		}
		return Val{T: g.Type(), S: c.addrOf(&Path{Kind: rootGlobal, Glob: g})}
	case "isnil":
		v := e.eval(n.Args[0], nil)
		if v.P != nil {
			return Val{T: types.Typ[types.Bool], S: "false"}
		}
		return Val{T: types.Typ[types.Bool], S: fmt.Sprintf("(= %s 0)", v.S)}
	case "dyntype":
		v := e.eval(n.Args[0], nil)
		c.decl("fn:dyntype", "(declare-fun dyntype (Int) Int)")
		return Val{T: I, S: fmt.Sprintf("(dyntype %s)", v.S)}
	case "typeid":
		t := e.typeFromExpr(n.Args[0])
		return Val{T: I, S: fmt.Sprint(c.eng.typeID(t))}
	case "cast": // cast(T, ifaceValue): the dynamic value of an interface, viewed at type T
		t := e.typeFromExpr(n.Args[0])
		v := e.eval(n.Args[1], nil)
		if _, toPtr := t.Underlying().(*types.Pointer); toPtr && (isUnsafePtr(v.T) || isPointer(v.T)) {
			// reinterpretation of a raw/unsafe pointer at a pointer type
			return Val{T: t, S: v.S, P: v.P}
		}
		srt := c.sortOf(t)
		fn := "ifaceval_" + sanitize(srt)
		c.decl("fn:"+fn, fmt.Sprintf("(declare-fun %s (Int) %s)", fn, srt))
		return Val{T: t, S: fmt.Sprintf("(%s %s)", fn, v.S)}
	case "prev": // value of an expression at the head of the current iteration (back-edge obligations only)
		if e.prev == nil {
			sfail("prev() is only available in loop asserts and in invariant preservation")
		}
		o := e.sub()
		o.st = e.prev
		o.loc = e.prev
		return o.eval(n.Args[0], hint)
	case "pre": // value of an expression at loop entry (loop invariants only)
		if e.pre == nil {
			sfail("pre() is only available in loop invariants")
		}
		o := e.sub()
		o.st = e.pre
		o.loc = e.pre // locals, too, have their loop-entry values
		return o.eval(n.Args[0], hint)
	case "newer": // allocated after the loop was entered (loop invariants only)
		if e.pre == nil {
			sfail("newer() is only available in loop invariants")
		}
		v := e.eval(n.Args[0], nil)
		r := v.S
		if _, isSlice := v.T.Underlying().(*types.Slice); isSlice {
			r = fmt.Sprintf("(sbase %s)", v.S)
		}
		return Val{T: types.Typ[types.Bool], S: fmt.Sprintf("(and (> %s 0) (>= (born %s) %s))", r, r, c.now(e.pre))}
	case "has": // has(m, k): key k is present in map m
		mv := e.eval(n.Args[0], nil)
		m, ok := c.mapModelOf(mv.T)
		if !ok || e.st == nil {
			sfail("has(m, k): m must be a map with integer or string keys")
		}
		kv := e.eval(n.Args[1], m.keyT)
		return Val{T: types.Typ[types.Bool], S: c.mapHas(e.st, m, mv.S, c.mapKey(m, kv))}
	case "argwords": // number of 8-byte words of a type / of the parameter frame of a func type
		t := e.typeFromExpr(n.Args[0])
		return e.numLit(big.NewInt(int64(len(c.ptrBits(t)))), hint)
	case "ptrword": // does word i of the type (parameter frame) hold a pointer?
		t := e.typeFromExpr(n.Args[0])
		i := e.eval(n.Args[1], I)
		return Val{T: types.Typ[types.Bool], S: c.ptrWordTerm(c.ptrBits(t), i.S, i.T)}
	case "initval": // initial value of a package-level variable with a constant composite-literal initializer
		id, ok := n.Args[0].(*SIdent)
		if !ok {
			sfail("initval takes a package-level variable name")
		}
		return e.initVal(id.Name)
	case "sizeof": // unsafe.Sizeof of a type under the gc/amd64 layout
		t := e.typeFromExpr(n.Args[0])
		return e.numLit(big.NewInt(c.eng.sizes.Sizeof(t)), hint)
	case "offsetof": // unsafe.Offsetof(T{}.field)
		t := e.typeFromExpr(n.Args[0])
		st, ok := t.Underlying().(*types.Struct)
		id, ok2 := n.Args[1].(*SIdent)
		if !ok || !ok2 {
			sfail("offsetof(StructType, field)")
		}
		idx := fieldIndex(st, id.Name)
		if idx < 0 {
			sfail("offsetof: no field %s in %s", id.Name, t)
		}
		var fields []*types.Var
		for i := 0; i < st.NumFields(); i++ {
			fields = append(fields, st.Field(i))
		}
		return e.numLit(big.NewInt(c.eng.sizes.Offsetsof(fields)[idx]), hint)
	case "txt": // the text (content) of a string or byte slice
		a := e.eval(n.Args[0], nil)
		if isByteSlice(a.T) || isGoSliceLike(a.T) {
			if e.st == nil {
				sfail("txt(bytes) in a state-free context")
			}
			hn, hs := c.heapNameArr(types.Typ[types.Uint8])
			a = Val{T: types.Typ[types.String], S: fmt.Sprintf("(mkstr (select %s (sbase %s)) (xoff %s) (xlen %s) 0)", c.heap(e.st, hn, hs), a.S, a.S, a.S)}
		}
		if !isString(a.T) {
			sfail("txt() takes a string or []byte")
		}
		c.sortOf(textType)
		c.declStrEq()
		c.decl("fn:txt", "(declare-fun txt (Str) Txt)")
		// same bytes <=> same text
		c.decl("ax:txt", "(assert (forall ((a!t Str) (b!t Str)) (! (= (streq a!t b!t) (= (txt a!t) (txt b!t))) :pattern ((txt a!t) (txt b!t)))))")
		arg := fmt.Sprintf("(ite (= (slen %s) %s) %s (mkstr (sarr %s) (soff %s) (slen %s) 0))", a.S, c.idxLit(0), c.strConst(""), a.S, a.S, a.S)
		return Val{T: textType, S: fmt.Sprintf("(txt %s)", arg)}
	case "strsfx": // strsfx(s, t): string s is the suffix t[len(t)-len(s):] of t as a VIEW (same bytes in memory)
		a := e.eval(n.Args[0], nil)
		b := e.eval(n.Args[1], nil)
		if !isString(a.T) || !isString(b.T) {
			sfail("strsfx takes two strings")
		}
		return Val{T: types.Typ[types.Bool], S: fmt.Sprintf("(and (= (sarr %s) (sarr %s)) %s (= (soff %s) %s))", a.S, b.S,
			c.idxLe(fmt.Sprintf("(slen %s)", a.S), fmt.Sprintf("(slen %s)", b.S)),
			a.S, c.idxAdd(fmt.Sprintf("(soff %s)", b.S), c.idxSub(fmt.Sprintf("(slen %s)", b.S), fmt.Sprintf("(slen %s)", a.S))))}
	case "aliases": // base reference of the mutable byte array a string value is a view of (0: none)
		v := e.eval(n.Args[0], nil)
		if !isString(v.T) {
			sfail("aliases() takes a string")
		}
		return Val{T: I, S: fmt.Sprintf("(sown %s)", v.S)}
	case "same": // structural (bitwise) equality of two values of the same sort
		a := e.eval(n.Args[0], nil)
		b := e.eval(n.Args[1], a.T)
		return Val{T: types.Typ[types.Bool], S: c.cmp("==", a.S, b.S, types.Typ[types.Int])}
	case "isNaN":
		v := e.eval(n.Args[0], nil)
		return Val{T: types.Typ[types.Bool], S: fmt.Sprintf("(fp.isNaN %s)", v.S)}
	case "isInf":
		v := e.eval(n.Args[0], nil)
		return Val{T: types.Typ[types.Bool], S: fmt.Sprintf("(fp.isInfinite %s)", v.S)}
	case "isNegative":
		v := e.eval(n.Args[0], nil)
		return Val{T: types.Typ[types.Bool], S: fmt.Sprintf("(fp.isNegative %s)", v.S)}
	case "isZero":
		v := e.eval(n.Args[0], nil)
		return Val{T: types.Typ[types.Bool], S: fmt.Sprintf("(fp.isZero %s)", v.S)}
	}
	// conversions
	if t := basicByName(n.Fn); t != nil && len(n.Args) == 1 {
		v := e.eval(n.Args[0], t)
		if isInt(t) && isInt(v.T) {
			if isUntyped(v.T) {
				return Val{T: t, S: e.eval(n.Args[0], t).S}
			}
			if v.P != nil {
				return Val{T: t, P: v.P}
			}
			return Val{T: t, S: c.convInt(v.S, v.T, t)}
		}
		if isString(t) && isByteSlice(v.T) {
			hn, hs := c.heapNameArr(types.Typ[types.Uint8])
			arr := fmt.Sprintf("(select %s (sbase %s))", c.heap(e.st, hn, hs), v.S)
			return Val{T: t, S: fmt.Sprintf("(mkstr %s (xoff %s) (xlen %s) 0)", arr, v.S, v.S)}
		}
		if types.Identical(t.Underlying(), v.T.Underlying()) {
			return Val{T: t, S: v.S}
		}
		if isFloat(t) && isFloat(v.T) {
			// float64 <-> float32: IEEE rounding to nearest even, as the Go conversion does
			eb, sb := 11, 53
			if t.Underlying().(*types.Basic).Kind() == types.Float32 {
				eb, sb = 8, 24
			}
			return Val{T: t, S: fmt.Sprintf("((_ to_fp %d %d) RNE %s)", eb, sb, v.S)}
		}
		sfail("conversion %s(%s)", n.Fn, v.T)
	}
	if pf := c.eng.pure(e.pkgPath(), n.Fn); pf != nil {
		return e.callPure(pf, n.Args, hint)
	}
	// named type conversion, e.g. Options(x)
	if e.pkg != nil {
		if o := e.pkg.Pkg.Scope().Lookup(n.Fn); o != nil {
			if tn, ok := o.(*types.TypeName); ok && len(n.Args) == 1 {
				v := e.eval(n.Args[0], tn.Type())
				if isInt(tn.Type()) && isInt(v.T) {
					return Val{T: tn.Type(), S: c.convInt(v.S, v.T, tn.Type())}
				}
				return Val{T: tn.Type(), S: v.S}
			}
		}
	}
	sfail("unknown spec function %s", n.Fn)
	return Val{}
}

// callPure: non-recursive pure functions with a body are macros evaluated in
// the caller's state; recursive or body-less ones become SMT functions over
// pure values.
func (e *SpecEnv) callPure(pf *PureFunc, args []SExpr, hint types.Type) Val {
	c := e.c
	if len(args) != len(pf.Params) {
		sfail("%s expects %d arguments", pf.Name, len(pf.Params))
	}
	penv := &SpecEnv{f: e.f, c: c, vars: map[string]Val{}, st: e.st, old: e.old, pkg: e.pkg, depth: e.depth + 1, pre: e.pre, prev: e.prev, loc: e.loc}
	if pp := c.eng.ssaPkg(pf.Pkg); pp != nil {
		penv.pkg = pp
	}
	if e.depth > 40 {
		sfail("pure function expansion too deep at %s", pf.Name)
	}
	var avals []Val
	for i, a := range args {
		pt := penv.typeByName(pf.Params[i].Type)
		v := e.eval(a, pt)
		if isInt(pt) && isInt(v.T) && !isUntyped(v.T) && c.mode == "bv" {
			v = Val{T: pt, S: c.convInt(v.S, v.T, pt)}
		} else if v.P == nil {
			v.T = pt
		}
		avals = append(avals, v)
	}
	rt := penv.typeByName(pf.Ret)
	if pf.Body != nil && !pf.Rec {
		for i, p := range pf.Params {
			penv.vars[p.Name] = avals[i]
		}
		r := penv.eval(pf.Body, rt)
		r.T = rt
		return r
	}
	// SMT-level function
	name := "spec." + sanitize(pf.Pkg[strings.LastIndex(pf.Pkg, "/")+1:]) + "." + pf.Name
	if !c.pureDone[name] {
		c.pureDone[name] = true
		var ps []string
		fenv := &SpecEnv{c: c, vars: map[string]Val{}, pkg: penv.pkg, depth: e.depth + 1}
		for _, p := range pf.Params {
			pt := penv.typeByName(p.Type)
			pn := "p." + p.Name
			ps = append(ps, fmt.Sprintf("(%s %s)", pn, c.sortOf(pt)))
			fenv.vars[p.Name] = Val{T: pt, S: pn}
		}
		if pf.Body == nil {
			var sorts []string
			for _, p := range pf.Params {
				sorts = append(sorts, c.sortOf(penv.typeByName(p.Type)))
			}
			c.decls = append(c.decls, fmt.Sprintf("(declare-fun %s (%s) %s)", name, strings.Join(sorts, " "), c.sortOf(rt)))
			// spec functions depend on the text of their string arguments only (congruence w.r.t. content equality)
			hasStr := false
			for _, so := range sorts {
				if so == "Str" {
					hasStr = true
				}
			}
			if hasStr {
				c.declStrEq()
				var bs, as1, as2, eqs []string
				for i, so := range sorts {
					bs = append(bs, fmt.Sprintf("(a!%d %s) (b!%d %s)", i, so, i, so))
					as1 = append(as1, fmt.Sprintf("a!%d", i))
					as2 = append(as2, fmt.Sprintf("b!%d", i))
					if so == "Str" {
						eqs = append(eqs, fmt.Sprintf("(streq a!%d b!%d)", i, i))
					} else {
						eqs = append(eqs, fmt.Sprintf("(= a!%d b!%d)", i, i))
					}
				}
				concl := fmt.Sprintf("(= (%s %s) (%s %s))", name, strings.Join(as1, " "), name, strings.Join(as2, " "))
				if c.sortOf(rt) == "Str" {
					concl = fmt.Sprintf("(streq (%s %s) (%s %s))", name, strings.Join(as1, " "), name, strings.Join(as2, " "))
				}
				c.decls = append(c.decls, fmt.Sprintf("(assert (forall (%s) (! (=> (and %s) %s) :pattern ((%s %s) (%s %s)))))",
					strings.Join(bs, " "), strings.Join(eqs, " "), concl, name, strings.Join(as1, " "), name, strings.Join(as2, " ")))
			}
		} else {
			// declarations made while evaluating the body precede the definition
			body := fenv.eval(pf.Body, rt)
			c.decls = append(c.decls, fmt.Sprintf("(define-fun-rec %s (%s) %s %s)", name, strings.Join(ps, " "), c.sortOf(rt), body.S))
		}
	}
	var as []string
	for _, a := range avals {
		if a.P != nil {
			if e.f == nil {
				sfail("structural pointer passed to SMT-level spec function %s", pf.Name)
			}
			// identity of the pointed-to location (addresses of globals / locals are opaque non-nil constants)
			as = append(as, e.f.ptrTerm(a))
			continue
		}
		if a.T != nil && isString(a.T) && strings.Contains(a.S, "!q") && !strings.ContainsAny(a.S, " ()") {
			// a quantifier-bound string variable (axioms): passed as is, so that the
			// application can serve as a trigger
			as = append(as, a.S)
			continue
		}
		if a.T != nil && isString(a.T) {
			// spec functions see the text of a string, not which buffer it is a view of
			// (all empty strings are the same text, whatever array they point into)
			as = append(as, fmt.Sprintf("(ite (= (slen %s) %s) %s (mkstr (sarr %s) (soff %s) (slen %s) 0))", a.S, c.idxLit(0), c.strConst(""), a.S, a.S, a.S))
			continue
		}
		as = append(as, a.S)
	}
	if len(as) == 0 {
		return Val{T: rt, S: name}
	}
	return Val{T: rt, S: fmt.Sprintf("(%s %s)", name, strings.Join(as, " "))}
}

// lvalue evaluation for modifies clauses -----------------------------------

type lval struct {
	mapRef    string    // m[_]: the contents (keys, values, length) of map object m
	mapM      *mapModel
	heapAll   []string     // modifies heap(T): every object of type T (heap names)
	globalsOf *ssa.Package // modifies globals(pkg): every package-level variable of pkg
	path  *Path
	whole bool   // x[*]: the whole array window of a slice
	slice string // slice term for whole
	elemT types.Type
	t     types.Type
}

func (e *SpecEnv) lvalue(x SExpr) lval {
	c := e.c
	switch n := x.(type) {
	case *SCall:
		if n.Fn == "rawmem" && len(n.Args) == 1 {
			// the whole array a raw byte pointer points into
			v := e.eval(n.Args[0], nil)
			if v.P == nil || v.P.Kind != rootArr {
				sfail("rawmem: not a raw pointer into a byte array: %s", n.Args[0])
			}
			sl := fmt.Sprintf("(mkslice %s %s %s %s)", v.P.Ref, v.P.Lo, c.idxSub(v.P.Hi, v.P.Lo), c.idxSub(v.P.Hi, v.P.Lo))
			if v.P.Lo == "" || v.P.Hi == "" {
				sfail("rawmem: pointer without a known valid range")
			}
			return lval{whole: true, slice: sl, elemT: v.P.T, path: &Path{Kind: rootArr, T: v.P.T, Ref: v.P.Ref}}
		}
		if n.Fn == "heap" && len(n.Args) == 1 {
			t := e.typeFromExpr(n.Args[0])
			p := &Path{Kind: rootHeap, T: t, Ref: "0"}
			var names []string
			for _, hn := range c.heapNamesWritten(p) {
				names = append(names, hn)
			}
			// make sure the heaps are declared
			c.load(e.st, p)
			return lval{heapAll: names}
		}
		if n.Fn == "globals" && len(n.Args) == 1 {
			if id, ok := n.Args[0].(*SIdent); ok && e.pkg != nil {
				if id.Name == e.pkg.Pkg.Name() {
					return lval{globalsOf: e.pkg}
				}
				for _, imp := range e.pkg.Pkg.Imports() {
					if imp.Name() == id.Name {
						if sp := c.eng.prog.Package(imp); sp != nil {
							return lval{globalsOf: sp}
						}
					}
				}
			}
			sfail("globals(%s): unknown package", n.Args[0])
		}
	case *SUnary:
		if n.Op == "*" {
			v := e.eval(n.X, nil)
			if v.P != nil {
				return lval{path: v.P, t: c.targetType(v.P)}
			}
			pt, ok := v.T.Underlying().(*types.Pointer)
			if !ok {
				sfail("modifies *%s: not a pointer", n.X)
			}
			return lval{path: &Path{Kind: rootHeap, T: pt.Elem(), Ref: v.S}, t: pt.Elem()}
		}
	case *SField:
		base := e.eval(n.X, nil)
		var p *Path
		var bt types.Type
		if base.P != nil {
			p = base.P
			bt = c.targetType(p)
		} else if pt, ok := base.T.Underlying().(*types.Pointer); ok {
			p = &Path{Kind: rootHeap, T: pt.Elem(), Ref: base.S}
			bt = pt.Elem()
		} else {
			inner := e.lvalue(n.X)
			p = inner.path
			bt = inner.t
		}
		st, ok := bt.Underlying().(*types.Struct)
		if !ok {
			sfail("modifies %s: not a struct", x)
		}
		i := fieldIndex(st, n.Name)
		if i < 0 {
			sfail("modifies %s: no such field", x)
		}
		q := *p
		q.Steps = append(append([]Step{}, p.Steps...), Step{Field: i})
		return lval{path: &q, t: st.Field(i).Type()}
	case *SIndex:
		if id, ok := n.I.(*SIdent); ok && id.Name == "_" {
			v := e.eval(n.X, nil)
			if m, ok := c.mapModelOf(v.T); ok {
				return lval{mapRef: v.S, mapM: m}
			}
			if sl, ok := v.T.Underlying().(*types.Slice); ok {
				return lval{whole: true, slice: v.S, elemT: sl.Elem(), path: &Path{Kind: rootArr, T: sl.Elem(), Ref: fmt.Sprintf("(sbase %s)", v.S)}}
			}
			sfail("modifies %s: not a slice", x)
		}
		v := e.eval(n.X, nil)
		iv := e.eval(n.I, types.Typ[types.Int])
		if sl, ok := v.T.Underlying().(*types.Slice); ok {
			p := &Path{Kind: rootArr, T: sl.Elem(), Ref: fmt.Sprintf("(sbase %s)", v.S), Steps: []Step{{IsIdx: true, Idx: c.idxAdd(fmt.Sprintf("(xoff %s)", v.S), c.toIdx(iv.S, iv.T))}}}
			return lval{path: p, t: sl.Elem()}
		}
		inner := e.lvalue(n.X)
		if at, ok := inner.t.Underlying().(*types.Array); ok {
			return lval{path: inner.path.extend(Step{IsIdx: true, Idx: c.toIdx(iv.S, iv.T)}), t: at.Elem()}
		}
	case *SIdent:
		if strings.HasPrefix(n.Name, "$") {
			t, ok := e.ghostType(n.Name)
			if !ok {
				sfail("undeclared ghost variable %s", n.Name)
			}
			return lval{path: &Path{Kind: rootGhost, Ref: n.Name, T: t}, t: t}
		}
		// global variable or local cell
		if e.cells {
			if p, t, ok := e.localCellPath(n.Name); ok {
				return lval{path: p, t: t}
			}
			if v, ok := e.localVar(n.Name); ok && v.P != nil {
				return lval{path: v.P, t: c.targetType(v.P)}
			}
		}
		if e.pkg != nil {
			if g, ok := e.pkg.Members[n.Name].(*ssa.Global); ok {
				return lval{path: &Path{Kind: rootGlobal, Glob: g}, t: g.Type().(*types.Pointer).Elem()}
			}
		}
	}
	sfail("unsupported modifies target %s", x)
	return lval{}
}

// arrAt: element k of an array window starting at off.  In int mode the access
// goes through an SMT function with a defining axiom triggered on the function
// itself, so that quantified contract clauses match on the whole index term
// (plain (select a (+ off k)) patterns break under arithmetic normalisation).
func (c *Ctx) arrAt(elemSort, arr, off, k string) string {
	if c.mode != "int" {
		return fmt.Sprintf("(select %s %s)", arr, c.idxAdd(off, k))
	}
	fn := "arrat_" + sanitize(elemSort)
	c.decl("fn:"+fn, fmt.Sprintf("(declare-fun %s ((Array Int %s) Int Int) %s)", fn, elemSort, elemSort))
	c.decl("ax:"+fn, fmt.Sprintf("(assert (forall ((a!a (Array Int %s)) (o!a Int) (k!a Int)) (! (= (%s a!a o!a k!a) (select a!a (+ o!a k!a))) :pattern ((%s a!a o!a k!a)))))", elemSort, fn, fn))
	return fmt.Sprintf("(%s %s %s %s)", fn, arr, off, k)
}
