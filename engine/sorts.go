package main

// Go types -> SMT sorts, literals, arithmetic in the two arithmetic modes
// ("int": mathematical integers with no-overflow obligations;
//  "bv": bit-precise fixed-width bit-vectors).

import (
	"fmt"
	"go/types"
	"math/big"
	"sort"
	"strings"
)

type Ctx struct {
	defBody map[string]string // bodies of define-fun abbreviations
	eng     *Engine
	mode    string // "int" | "bv"
	decls   []string
	declSet map[string]bool
	defs    []string // definitions and assumptions in program order
	obls    []*Obligation
	nfresh  int
	dry     bool
	structs map[string]*types.Struct
	notes   map[string]bool // abstractions / unsupported constructs met (for the evidence)
	inlined map[string]bool
	used    map[string]bool // assumed contracts used
	pureDone map[string]bool
	strConsts map[string]string
	wraps   bool
	wantText bool // the contract speaks about texts: builtins also state their effect on texts
	fnName  string
	heapSorts map[string]string
	hmerge  map[int][]hmEntry
	hmCache map[string]string
	nhavoc  int
	shl1    map[string]string // terms of the form 1<<s (int mode) -> s
	heapKind map[string]string // heap name -> "ref" | "slice" | "refarr" (what its cells hold)
}

func newCtx(eng *Engine, mode string) *Ctx {
	c := &Ctx{eng: eng, mode: mode, declSet: map[string]bool{}, structs: map[string]*types.Struct{},
		notes: map[string]bool{}, inlined: map[string]bool{}, used: map[string]bool{}, pureDone: map[string]bool{}, strConsts: map[string]string{},
		heapSorts: map[string]string{}, hmerge: map[int][]hmEntry{}, hmCache: map[string]string{}, heapKind: map[string]string{}}
	idx := c.idxSort()
	b := c.byteSort()
	c.decl("Str", fmt.Sprintf("(declare-datatypes ((Str 0)) (((mkstr (sarr (Array %s %s)) (soff %s) (slen %s) (sown Int)))))", idx, b, idx, idx))
	c.decl("Slice", fmt.Sprintf("(declare-datatypes ((Slice 0)) (((mkslice (sbase Int) (xoff %s) (xlen %s) (xcap %s)))))", idx, idx, idx))
	return c
}

func (c *Ctx) decl(key, text string) {
	if c.declSet[key] {
		return
	}
	c.declSet[key] = true
	c.decls = append(c.decls, text)
}

func (c *Ctx) note(s string) { c.notes[s] = true }

func (c *Ctx) fresh(prefix, sort string) string {
	c.nfresh++
	n := fmt.Sprintf("%s!%d", sanitize(prefix), c.nfresh)
	c.decls = append(c.decls, fmt.Sprintf("(declare-const %s %s)", n, sort))
	return n
}

func (c *Ctx) assume(f string) {
	if f == "true" {
		return
	}
	// conjunctions are asserted conjunct by conjunct (also under a guard), so that
	// the per-obligation slicing of assumptions works on single facts
	if strings.Contains(f, "(txt ") {
		if strings.HasPrefix(f, "(and ") {
			if parts := splitTopLevel(f[1 : len(f)-1]); len(parts) > 2 {
				for _, p := range parts[1:] {
					c.assume(p)
				}
				return
			}
		}
		if strings.HasPrefix(f, "(=> ") {
			if parts := splitTopLevel(f[1 : len(f)-1]); len(parts) == 3 && (strings.HasPrefix(parts[2], "(and ") || strings.HasPrefix(parts[2], "(=> ")) {
				if strings.HasPrefix(parts[2], "(and ") {
					if cs := splitTopLevel(parts[2][1 : len(parts[2])-1]); len(cs) > 2 {
						for _, p := range cs[1:] {
							c.assume(fmt.Sprintf("(=> %s %s)", parts[1], p))
						}
						return
					}
				} else if in := splitTopLevel(parts[2][1 : len(parts[2])-1]); len(in) == 3 && strings.HasPrefix(in[2], "(and ") {
					// (=> a (=> b (and ...)))  ==  (=> (and a b) (and ...))
					c.assume(fmt.Sprintf("(=> (and %s %s) %s)", parts[1], in[1], in[2]))
					return
				}
			}
		}
	}
	c.decls = append(c.decls, "(assert "+f+")")
}

// bind gives a (possibly large) term a name.
func (c *Ctx) bind(prefix, term, sort string) string {
	if len(term) <= 48 {
		return term
	}
	return c.define(prefix, term, sort)
}

// define introduces a named abbreviation (an SMT macro) for a term.
func (c *Ctx) define(prefix, term, sort string) string {
	c.nfresh++
	n := fmt.Sprintf("%s!%d", sanitize(prefix), c.nfresh)
	c.decls = append(c.decls, fmt.Sprintf("(define-fun %s () %s %s)", n, sort, term))
	if c.defBody == nil {
		c.defBody = map[string]string{}
	}
	c.defBody[n] = term
	return n
}

// mergeTerm builds the value of a location after a join: nested ite over the
// (mutually exclusive) edge conditions, the last edge being the default.
func (c *Ctx) mergeTerm(prefix, sort string, conds, terms []string) string {
	t := terms[len(terms)-1]
	for i := len(terms) - 2; i >= 0; i-- {
		t = ite(conds[i], terms[i], t)
	}
	return c.define(prefix, t, sort)
}

func sanitize(s string) string {
	var sb strings.Builder
	for _, r := range s {
		switch {
		case r >= 'a' && r <= 'z', r >= 'A' && r <= 'Z', r >= '0' && r <= '9', r == '_', r == '.', r == '$':
			sb.WriteRune(r)
		default:
			sb.WriteByte('_')
		}
	}
	if sb.Len() == 0 {
		return "v"
	}
	return sb.String()
}

func (c *Ctx) idxSort() string {
	if c.mode == "bv" {
		return "(_ BitVec 64)"
	}
	return "Int"
}
func (c *Ctx) byteSort() string {
	if c.mode == "bv" {
		return "(_ BitVec 8)"
	}
	return "Int"
}

func intInfo(t types.Type) (bits int, signed bool, ok bool) {
	b, isb := t.Underlying().(*types.Basic)
	if !isb {
		return 0, false, false
	}
	switch b.Kind() {
	case types.Int8:
		return 8, true, true
	case types.Int16:
		return 16, true, true
	case types.Int32:
		return 32, true, true
	case types.Int64, types.Int:
		return 64, true, true
	case types.Uint8:
		return 8, false, true
	case types.Uint16:
		return 16, false, true
	case types.Uint32:
		return 32, false, true
	case types.Uint64, types.Uint, types.Uintptr:
		return 64, false, true
	case types.UntypedInt, types.UntypedRune:
		return 64, true, true
	}
	return 0, false, false
}

func isInt(t types.Type) bool { _, _, ok := intInfo(t); return ok }
func isBool(t types.Type) bool {
	b, ok := t.Underlying().(*types.Basic)
	return ok && b.Info()&types.IsBoolean != 0
}
func isString(t types.Type) bool {
	b, ok := t.Underlying().(*types.Basic)
	return ok && b.Info()&types.IsString != 0
}
func isFloat(t types.Type) bool {
	b, ok := t.Underlying().(*types.Basic)
	return ok && b.Info()&types.IsFloat != 0
}
func isUnsafePtr(t types.Type) bool {
	b, ok := t.Underlying().(*types.Basic)
	return ok && b.Kind() == types.UnsafePointer
}
func isPointer(t types.Type) bool {
	_, ok := t.Underlying().(*types.Pointer)
	return ok
}

func typeKey(t types.Type) string {
	return sanitize(types.TypeString(t, func(p *types.Package) string { return p.Name() }))
}

// sortOf maps a Go type to an SMT sort, declaring datatypes on demand.
// textType: the abstract content of a byte string (spec-only).  Two strings have
// the same text iff they are equal byte for byte; spec functions over text are
// ordinary uninterpreted functions, so composing them needs no quantifiers.
var textType = types.NewNamed(types.NewTypeName(0, nil, "text", nil), types.NewStruct(nil, nil), nil)

func (c *Ctx) sortOf(t types.Type) string {
	if t == textType {
		c.decl("sort:Txt", "(declare-sort Txt 0)")
		return "Txt"
	}
	if isGoSliceLike(t) {
		return "Slice"
	}
	if isGoStringLike(t) {
		return "Str"
	}
	switch u := t.Underlying().(type) {
	case *types.Basic:
		switch {
		case u.Info()&types.IsBoolean != 0:
			return "Bool"
		case u.Info()&types.IsInteger != 0:
			if c.mode == "bv" {
				bits, _, _ := intInfo(u)
				return fmt.Sprintf("(_ BitVec %d)", bits)
			}
			return "Int"
		case u.Info()&types.IsString != 0:
			return "Str"
		case u.Kind() == types.Float64 || u.Kind() == types.UntypedFloat:
			return "(_ FloatingPoint 11 53)"
		case u.Kind() == types.Float32:
			return "(_ FloatingPoint 8 24)"
		case u.Kind() == types.UnsafePointer:
			return "Int"
		case u.Kind() == types.UntypedNil:
			return "Int"
		}
	case *types.Pointer, *types.Signature, *types.Map, *types.Chan, *types.Interface:
		return "Int"
	case *types.Slice:
		return "Slice"
	case *types.Array:
		return fmt.Sprintf("(Array %s %s)", c.idxSort(), c.sortOf(u.Elem()))
	case *types.Struct:
		name := "S_" + typeKey(t)
		if _, isNamed := t.(*types.Named); !isNamed {
			name = fmt.Sprintf("S_anon%d_%s", u.NumFields(), sanitize(u.String()))
			if len(name) > 60 {
				name = name[:60]
			}
		}
		if !c.declSet[name] {
			c.declSet[name] = true // reserve (recursion through pointers only)
			var fs []string
			for i := 0; i < u.NumFields(); i++ {
				fs = append(fs, fmt.Sprintf("(%s %s)", c.fieldSel(name, u, i), c.sortOf(u.Field(i).Type())))
			}
			c.structs[name] = u
			if len(fs) == 0 {
				c.decls = append(c.decls, fmt.Sprintf("(declare-datatypes ((%s 0)) (((mk_%s))))", name, name))
			} else {
				c.decls = append(c.decls, fmt.Sprintf("(declare-datatypes ((%s 0)) (((mk_%s %s))))", name, name, strings.Join(fs, " ")))
			}
		}
		return name
	case *types.Tuple:
		return "Tuple"
	}
	panic(unsupported("type " + t.String()))
}

func (c *Ctx) fieldSel(sname string, u *types.Struct, i int) string {
	return fmt.Sprintf("%s.%s", sname, sanitize(u.Field(i).Name()))
}

type unsupportedErr struct{ msg string }

func (e unsupportedErr) Error() string { return "unsupported: " + e.msg }
func unsupported(msg string) error    { return unsupportedErr{msg} }

// zero value term of a sort for a Go type
func (c *Ctx) zero(t types.Type) string {
	if isGoSliceLike(t) {
		z := c.idxLit(0)
		return fmt.Sprintf("(mkslice 0 %s %s %s)", z, z, z)
	}
	if isGoStringLike(t) {
		return c.strConst("")
	}
	switch u := t.Underlying().(type) {
	case *types.Basic:
		switch {
		case u.Info()&types.IsBoolean != 0:
			return "false"
		case u.Info()&types.IsInteger != 0:
			return c.intLit(big.NewInt(0), t)
		case u.Info()&types.IsString != 0:
			return c.strConst("")
		case u.Info()&types.IsFloat != 0:
			if u.Kind() == types.Float32 {
				return "(_ +zero 8 24)"
			}
			return "(_ +zero 11 53)"
		default:
			return "0"
		}
	case *types.Pointer, *types.Signature, *types.Map, *types.Chan, *types.Interface:
		return "0"
	case *types.Slice:
		z := c.idxLit(0)
		return fmt.Sprintf("(mkslice 0 %s %s %s)", z, z, z)
	case *types.Array:
		return fmt.Sprintf("((as const %s) %s)", c.sortOf(t), c.zero(u.Elem()))
	case *types.Struct:
		name := c.sortOf(t)
		if u.NumFields() == 0 {
			return "mk_" + name
		}
		var fs []string
		for i := 0; i < u.NumFields(); i++ {
			fs = append(fs, c.zero(u.Field(i).Type()))
		}
		return fmt.Sprintf("(mk_%s %s)", name, strings.Join(fs, " "))
	}
	panic(unsupported("zero of " + t.String()))
}

func (c *Ctx) idxLit(n int64) string {
	if c.mode == "bv" {
		return fmt.Sprintf("(_ bv%d 64)", uint64(n))
	}
	if n < 0 {
		return fmt.Sprintf("(- %d)", -n)
	}
	return fmt.Sprint(n)
}

func (c *Ctx) intLit(v *big.Int, t types.Type) string {
	if c.mode == "bv" {
		bits, _, ok := intInfo(t)
		if !ok {
			bits = 64
		}
		m := new(big.Int).Lsh(big.NewInt(1), uint(bits))
		x := new(big.Int).Mod(v, m)
		return fmt.Sprintf("(_ bv%s %d)", x.String(), bits)
	}
	if v.Sign() < 0 {
		return fmt.Sprintf("(- %s)", new(big.Int).Neg(v).String())
	}
	return v.String()
}

func (c *Ctx) byteLit(b byte) string {
	if c.mode == "bv" {
		return fmt.Sprintf("(_ bv%d 8)", b)
	}
	return fmt.Sprint(int(b))
}

// strConst returns a Str term for a Go string constant.
func (c *Ctx) strConst(s string) string {
	if t, ok := c.strConsts[s]; ok {
		return t
	}
	arrSort := fmt.Sprintf("(Array %s %s)", c.idxSort(), c.byteSort())
	c.nfresh++
	a := fmt.Sprintf("strlit!%d", c.nfresh)
	c.decls = append(c.decls, fmt.Sprintf("(declare-const %s %s)", a, arrSort))
	for i := 0; i < len(s); i++ {
		// constants are facts: put them in decls so that they are visible to every obligation
		c.decls = append(c.decls, fmt.Sprintf("(assert (= (select %s %s) %s))", a, c.idxLit(int64(i)), c.byteLit(s[i])))
	}
	t := fmt.Sprintf("(mkstr %s %s %s 0)", a, c.idxLit(0), c.idxLit(int64(len(s))))
	c.strConsts[s] = t
	return t
}

func typeRange(t types.Type) (lo, hi *big.Int, ok bool) {
	bits, signed, ok := intInfo(t)
	if !ok {
		return nil, nil, false
	}
	if signed {
		hi = new(big.Int).Sub(new(big.Int).Lsh(big.NewInt(1), uint(bits-1)), big.NewInt(1))
		lo = new(big.Int).Neg(new(big.Int).Lsh(big.NewInt(1), uint(bits-1)))
	} else {
		lo = big.NewInt(0)
		hi = new(big.Int).Sub(new(big.Int).Lsh(big.NewInt(1), uint(bits)), big.NewInt(1))
	}
	return lo, hi, true
}

// inRange returns the formula "term is within the range of integer type t" (int mode), or "true".
func (c *Ctx) inRange(term string, t types.Type) string {
	if c.mode == "bv" {
		return "true"
	}
	lo, hi, ok := typeRange(t)
	if !ok {
		return "true"
	}
	return fmt.Sprintf("(and (<= %s %s) (<= %s %s))", c.intLit(lo, t), term, term, c.intLit(hi, t))
}

// typeInv: well-typedness facts for a freshly introduced symbolic value of type t
// (integer ranges, slice shape, string shape).
func (c *Ctx) typeInv(term string, t types.Type) string {
	if isGoSliceLike(t) {
		return c.sliceInv(term)
	}
	if isGoStringLike(t) {
		return c.strInv(term)
	}
	switch u := t.Underlying().(type) {
	case *types.Basic:
		if u.Info()&types.IsInteger != 0 {
			return c.inRange(term, t)
		}
		if u.Info()&types.IsString != 0 {
			return c.strInv(term)
		}
	case *types.Slice:
		return c.sliceInv(term)
	case *types.Struct:
		name := c.sortOf(t)
		var parts []string
		for i := 0; i < u.NumFields(); i++ {
			f := c.typeInv(fmt.Sprintf("(%s %s)", c.fieldSel(name, u, i), term), u.Field(i).Type())
			if f != "true" {
				parts = append(parts, f)
			}
		}
		return and(parts...)
	case *types.Pointer, *types.Map, *types.Chan, *types.Signature, *types.Interface:
		return fmt.Sprintf("(>= %s 0)", term)
	}
	return "true"
}

func (c *Ctx) strInv(term string) string {
	if c.mode == "bv" {
		// 0 <= off, len and off+len does not wrap (lengths below 2^62)
		return fmt.Sprintf("(and (bvult (slen %s) (_ bv140737488355328 64)) (bvult (soff %s) (_ bv140737488355328 64)))", term, term)
	}
	return fmt.Sprintf("(and (<= 0 (soff %s)) (<= 0 (slen %s)) (<= (slen %s) 140737488355328))", term, term, term)
}

func (c *Ctx) sliceInv(term string) string {
	if c.mode == "bv" {
		return fmt.Sprintf("(and (bvule (xlen %s) (xcap %s)) (bvult (xcap %s) (_ bv140737488355328 64)) (bvult (xoff %s) (_ bv140737488355328 64)) (=> (= (sbase %s) 0) (= (xcap %s) (_ bv0 64))))", term, term, term, term, term, term)
	}
	return fmt.Sprintf("(and (<= 0 (xoff %s)) (<= 0 (xlen %s)) (<= (xlen %s) (xcap %s)) (<= (xcap %s) 140737488355328) (>= (sbase %s) 0) (=> (= (sbase %s) 0) (= (xcap %s) 0)))", term, term, term, term, term, term, term, term)
}

func and(parts ...string) string {
	var ps []string
	for _, p := range parts {
		if p == "true" || p == "" {
			continue
		}
		if p == "false" {
			return "false"
		}
		ps = append(ps, p)
	}
	switch len(ps) {
	case 0:
		return "true"
	case 1:
		return ps[0]
	}
	return "(and " + strings.Join(ps, " ") + ")"
}

func or(parts ...string) string {
	var ps []string
	for _, p := range parts {
		if p == "false" || p == "" {
			continue
		}
		if p == "true" {
			return "true"
		}
		ps = append(ps, p)
	}
	switch len(ps) {
	case 0:
		return "false"
	case 1:
		return ps[0]
	}
	return "(or " + strings.Join(ps, " ") + ")"
}

func not(p string) string {
	switch p {
	case "true":
		return "false"
	case "false":
		return "true"
	}
	if strings.HasPrefix(p, "(not ") && strings.HasSuffix(p, ")") && balanced(p[5:len(p)-1]) {
		return p[5 : len(p)-1]
	}
	return "(not " + p + ")"
}

func balanced(s string) bool {
	d := 0
	for i := 0; i < len(s); i++ {
		switch s[i] {
		case '(':
			d++
		case ')':
			d--
			if d < 0 {
				return false
			}
		case ' ':
			if d == 0 {
				return false
			}
		}
	}
	return d == 0
}

func implies(a, b string) string {
	if a == "true" {
		return b
	}
	if b == "true" {
		return "true"
	}
	if a == "false" {
		return "true"
	}
	return "(=> " + a + " " + b + ")"
}

func ite(cnd, a, b string) string {
	if cnd == "true" {
		return a
	}
	if cnd == "false" {
		return b
	}
	if a == b {
		return a
	}
	return "(ite " + cnd + " " + a + " " + b + ")"
}

func sortedKeys(m map[string]bool) []string {
	var ks []string
	for k := range m {
		ks = append(ks, k)
	}
	sort.Strings(ks)
	return ks
}

// ---------- integer operations ----------

// wrapInt: reduce a mathematical integer term into the range of t (int mode).
func (c *Ctx) wrapInt(term string, t types.Type) string {
	bits, signed, ok := intInfo(t)
	if !ok || c.mode == "bv" {
		return term
	}
	m := new(big.Int).Lsh(big.NewInt(1), uint(bits)).String()
	if !signed {
		return fmt.Sprintf("(mod %s %s)", term, m)
	}
	h := new(big.Int).Lsh(big.NewInt(1), uint(bits-1)).String()
	return fmt.Sprintf("(- (mod (+ %s %s) %s) %s)", term, h, m, h)
}

func pow2(k uint) *big.Int { return new(big.Int).Lsh(big.NewInt(1), k) }

// constInt extracts a literal integer from a term produced by intLit (int mode) if it is one.
func constInt(term string) (*big.Int, bool) {
	s := term
	neg := false
	if strings.HasPrefix(s, "(- ") && strings.HasSuffix(s, ")") {
		neg = true
		s = s[3 : len(s)-1]
	}
	if strings.HasPrefix(s, "(_ bv") {
		var v string
		var w int
		if _, err := fmt.Sscanf(s, "(_ bv%s %d)", &v, &w); err == nil {
			b, ok := new(big.Int).SetString(v, 10)
			return b, ok
		}
		return nil, false
	}
	for _, ch := range s {
		if ch < '0' || ch > '9' {
			return nil, false
		}
	}
	if s == "" {
		return nil, false
	}
	b, ok := new(big.Int).SetString(s, 10)
	if ok && neg {
		b.Neg(b)
	}
	return b, ok
}

// arith returns the term for (x op y) at Go type t, plus an optional
// no-overflow / defined-ness side condition ("" if none).
func (c *Ctx) arith(op string, x, y string, t types.Type, yT types.Type) (term string, side string, sideKind string) {
	bits, signed, _ := intInfo(t)
	if c.mode == "bv" {
		switch op {
		case "+":
			return fmt.Sprintf("(bvadd %s %s)", x, y), "", ""
		case "-":
			return fmt.Sprintf("(bvsub %s %s)", x, y), "", ""
		case "*":
			return fmt.Sprintf("(bvmul %s %s)", x, y), "", ""
		case "/":
			z := c.intLit(big.NewInt(0), t)
			if signed {
				return fmt.Sprintf("(bvsdiv %s %s)", x, y), fmt.Sprintf("(not (= %s %s))", y, z), "div"
			}
			return fmt.Sprintf("(bvudiv %s %s)", x, y), fmt.Sprintf("(not (= %s %s))", y, z), "div"
		case "%":
			z := c.intLit(big.NewInt(0), t)
			if signed {
				return fmt.Sprintf("(bvsrem %s %s)", x, y), fmt.Sprintf("(not (= %s %s))", y, z), "div"
			}
			return fmt.Sprintf("(bvurem %s %s)", x, y), fmt.Sprintf("(not (= %s %s))", y, z), "div"
		case "&":
			return fmt.Sprintf("(bvand %s %s)", x, y), "", ""
		case "|":
			return fmt.Sprintf("(bvor %s %s)", x, y), "", ""
		case "^":
			return fmt.Sprintf("(bvxor %s %s)", x, y), "", ""
		case "&^":
			return fmt.Sprintf("(bvand %s (bvnot %s))", x, y), "", ""
		case "<<", ">>":
			// shift count y has its own type; bring to width of x; counts >= width give 0 (or sign fill)
			ybits, _, _ := intInfo(yT)
			yy := y
			if ybits < bits {
				yy = fmt.Sprintf("((_ zero_extend %d) %s)", bits-ybits, y)
			} else if ybits > bits {
				// saturate: if y >= bits then shift by bits (gives 0 / sign)
				yy = fmt.Sprintf("(ite (bvuge %s (_ bv%d %d)) (_ bv%d %d) ((_ extract %d 0) %s))", y, bits, ybits, bits, bits, bits-1, y)
			}
			if op == "<<" {
				return fmt.Sprintf("(bvshl %s %s)", x, yy), "", ""
			}
			if signed {
				return fmt.Sprintf("(bvashr %s %s)", x, yy), "", ""
			}
			return fmt.Sprintf("(bvlshr %s %s)", x, yy), "", ""
		}
		panic(unsupported("bv op " + op))
	}
	// int mode
	rng := func(term string) string { return c.inRange(term, t) }
	switch op {
	case "+":
		r := fmt.Sprintf("(+ %s %s)", x, y)
		return r, rng(r), "overflow"
	case "-":
		r := fmt.Sprintf("(- %s %s)", x, y)
		return r, rng(r), "overflow"
	case "*":
		r := fmt.Sprintf("(* %s %s)", x, y)
		return r, rng(r), "overflow"
	case "/":
		// Go truncates toward zero
		r := fmt.Sprintf("(ite (>= %s 0) (div %s %s) (- (div (- %s) %s)))", x, x, y, x, y)
		if !signed {
			r = fmt.Sprintf("(div %s %s)", x, y)
		}
		return r, fmt.Sprintf("(not (= %s 0))", y), "div"
	case "%":
		r := fmt.Sprintf("(ite (>= %s 0) (mod %s %s) (- (mod (- %s) %s)))", x, x, y, x, y)
		if !signed {
			r = fmt.Sprintf("(mod %s %s)", x, y)
		}
		return r, fmt.Sprintf("(not (= %s 0))", y), "div"
	case "<<":
		if k, ok := constInt(y); ok && k.IsInt64() && k.Int64() >= 0 && k.Int64() < 64 {
			r := fmt.Sprintf("(* %s %s)", x, pow2(uint(k.Int64())).String())
			return r, rng(r), "overflow"
		}
		if kx, ok := constInt(x); ok && kx.Cmp(big.NewInt(1)) == 0 {
			// 1 << y: Go defines shifts by >= width as 0 (no panic for unsigned counts)
			c.declPow2()
			top := pow2(uint(bits - 1)).String()
			if signed {
				top = "(- " + top + ")"
			}
			r := fmt.Sprintf("(ite (and (<= 0 %s) (< %s %d)) (pow2 %s) (ite (= %s %d) %s 0))", y, y, bits-1, y, y, bits-1, top)
			r = c.define("shl1", r, "Int")
			if c.shl1 == nil {
				c.shl1 = map[string]string{}
			}
			c.shl1[r] = y
			return r, "", ""
		}
	case ">>":
		if k, ok := constInt(y); ok && k.IsInt64() && k.Int64() >= 0 && k.Int64() < 64 {
			return fmt.Sprintf("(div %s %s)", x, pow2(uint(k.Int64())).String()), "", ""
		}
		if !signed {
			// variable shift count: x div 2^y for y < width, 0 beyond
			c.declPow2()
			return fmt.Sprintf("(ite (and (<= 0 %s) (< %s %d)) (div %s (pow2 %s)) 0)", y, y, bits, x, y), "", ""
		}
	case "&":
		// K & (1 << s): expands over the set bits of the constant K
		for _, p := range [][2]string{{x, y}, {y, x}} {
			if s, ok := c.shl1[p[0]]; ok {
				if k, ok2 := constInt(p[1]); ok2 && k.Sign() >= 0 && k.BitLen() <= 63 && popcount(k) <= 16 {
					r := "0"
					for b := k.BitLen() - 1; b >= 0; b-- {
						if k.Bit(b) == 1 {
							r = fmt.Sprintf("(ite (= %s %d) %s %s)", s, b, pow2(uint(b)).String(), r)
						}
					}
					return r, "", ""
				}
			}
		}
		// x & (2^k-1)  -> x mod 2^k for x >= 0 (unsigned or known non-negative)
		for _, p := range [][2]string{{x, y}, {y, x}} {
			if k, ok := constInt(p[1]); ok && k.Sign() >= 0 {
				k1 := new(big.Int).Add(k, big.NewInt(1))
				if new(big.Int).And(k1, k).Sign() == 0 && !signed {
					return fmt.Sprintf("(mod %s %s)", p[0], k1.String()), "", ""
				}
			}
		}
	}
	// uninterpreted fallback with range fact
	c.note("int-mode bit operation " + op + " abstracted as uninterpreted function")
	fn := map[string]string{"&": "bitand", "|": "bitor", "^": "bitxor", "&^": "bitandnot", "<<": "bitshl", ">>": "bitshr"}[op]
	if fn == "" {
		panic(unsupported("int op " + op))
	}
	c.decl("fn:"+fn, fmt.Sprintf("(declare-fun %s (Int Int) Int)", fn))
	r := fmt.Sprintf("(%s %s %s)", fn, x, y)
	if op == "&" {
		c.decl("ax:bitand", "(assert (forall ((a Int) (b Int)) (! (=> (and (>= a 0) (>= b 0)) (and (<= 0 (bitand a b)) (<= (bitand a b) a) (<= (bitand a b) b))) :pattern ((bitand a b)))))")
	}
	return r, "", ""
}

func (c *Ctx) declPow2() {
	c.decl("fn:pow2", "(declare-fun pow2 (Int) Int)")
	for i := 0; i <= 64; i++ {
		c.decl(fmt.Sprintf("ax:pow2:%d", i), fmt.Sprintf("(assert (= (pow2 %d) %s))", i, pow2(uint(i)).String()))
	}
}

func (c *Ctx) cmp(op string, x, y string, t types.Type) string {
	if isFloat(t) {
		m := map[string]string{"==": "fp.eq", "<": "fp.lt", "<=": "fp.leq", ">": "fp.gt", ">=": "fp.geq"}
		if op == "!=" {
			return fmt.Sprintf("(not (fp.eq %s %s))", x, y)
		}
		return fmt.Sprintf("(%s %s %s)", m[op], x, y)
	}
	switch op {
	case "==":
		if x == y {
			return "true"
		}
		return fmt.Sprintf("(= %s %s)", x, y)
	case "!=":
		if x == y {
			return "false"
		}
		return fmt.Sprintf("(not (= %s %s))", x, y)
	}
	if c.mode == "bv" {
		_, signed, ok := intInfo(t)
		if !ok {
			signed = false
		}
		m := map[string]string{"<": "bvult", "<=": "bvule", ">": "bvugt", ">=": "bvuge"}
		if signed {
			m = map[string]string{"<": "bvslt", "<=": "bvsle", ">": "bvsgt", ">=": "bvsge"}
		}
		return fmt.Sprintf("(%s %s %s)", m[op], x, y)
	}
	return fmt.Sprintf("(%s %s %s)", op, x, y)
}

// convInt converts an integer term from type `from` to type `to`.
func (c *Ctx) convInt(x string, from, to types.Type) string {
	fb, fs, _ := intInfo(from)
	tb, ts, _ := intInfo(to)
	if c.mode == "bv" {
		switch {
		case tb == fb:
			return x
		case tb < fb:
			return fmt.Sprintf("((_ extract %d 0) %s)", tb-1, x)
		default:
			if fs {
				return fmt.Sprintf("((_ sign_extend %d) %s)", tb-fb, x)
			}
			return fmt.Sprintf("((_ zero_extend %d) %s)", tb-fb, x)
		}
	}
	// int mode: value preserved if it fits, else wrapped
	flo, fhi, _ := typeRange(from)
	tlo, thi, _ := typeRange(to)
	if flo.Cmp(tlo) >= 0 && fhi.Cmp(thi) <= 0 {
		return x
	}
	if k, ok := constInt(x); ok {
		m := pow2(uint(tb))
		v := new(big.Int).Mod(k, m)
		if ts && v.Cmp(pow2(uint(tb-1))) >= 0 {
			v.Sub(v, m)
		}
		return c.intLit(v, to)
	}
	if fb == tb && fs != ts {
		// same width, signedness change: piecewise linear (x is within its type's range)
		m := pow2(uint(tb)).String()
		if fs {
			return fmt.Sprintf("(ite (>= %s 0) %s (+ %s %s))", x, x, x, m)
		}
		return fmt.Sprintf("(ite (< %s %s) %s (- %s %s))", x, pow2(uint(tb-1)).String(), x, x, m)
	}
	return c.wrapInt(x, to)
}

// idx converts an integer term of Go type t to the index sort.
func (c *Ctx) toIdx(x string, t types.Type) string {
	if c.mode != "bv" {
		return x
	}
	bits, signed, ok := intInfo(t)
	if !ok || bits == 64 {
		return x
	}
	if signed {
		return fmt.Sprintf("((_ sign_extend %d) %s)", 64-bits, x)
	}
	return fmt.Sprintf("((_ zero_extend %d) %s)", 64-bits, x)
}

func (c *Ctx) idxAdd(a, b string) string {
	if c.mode == "bv" {
		return fmt.Sprintf("(bvadd %s %s)", a, b)
	}
	if b == "0" {
		return a
	}
	if a == "0" {
		return b
	}
	return fmt.Sprintf("(+ %s %s)", a, b)
}
func (c *Ctx) idxSub(a, b string) string {
	if c.mode == "bv" {
		return fmt.Sprintf("(bvsub %s %s)", a, b)
	}
	if b == "0" {
		return a
	}
	return fmt.Sprintf("(- %s %s)", a, b)
}
func (c *Ctx) idxLe(a, b string) string {
	if c.mode == "bv" {
		return fmt.Sprintf("(bvsle %s %s)", a, b)
	}
	return fmt.Sprintf("(<= %s %s)", a, b)
}
func (c *Ctx) idxLt(a, b string) string {
	if c.mode == "bv" {
		return fmt.Sprintf("(bvslt %s %s)", a, b)
	}
	return fmt.Sprintf("(< %s %s)", a, b)
}

// simplifyDisj merges disjuncts of the shape (and R c) / (and R (not c)) into R
// (the two sides of a diamond), repeatedly.
func simplifyDisj(conds []string) []string {
	cs := append([]string{}, conds...)
	for changed := true; changed; {
		changed = false
	outer:
		for i := 0; i < len(cs); i++ {
			bi, li, oki := splitAnd(cs[i])
			if !oki {
				continue
			}
			for j := i + 1; j < len(cs); j++ {
				bj, lj, okj := splitAnd(cs[j])
				if okj && bi == bj && (li == not(lj) || lj == not(li)) {
					cs[i] = bi
					cs = append(cs[:j], cs[j+1:]...)
					changed = true
					break outer
				}
			}
		}
	}
	return cs
}

// splitAnd splits "(and R lit)" into R and lit (last conjunct); a bare literal has base "true".
func splitAnd(s string) (base, lit string, ok bool) {
	if !strings.HasPrefix(s, "(and ") {
		return "true", s, true
	}
	inner := s[5 : len(s)-1]
	// split top-level arguments
	var args []string
	d, start := 0, 0
	for i := 0; i < len(inner); i++ {
		switch inner[i] {
		case '(':
			d++
		case ')':
			d--
		case ' ':
			if d == 0 {
				args = append(args, inner[start:i])
				start = i + 1
			}
		}
	}
	args = append(args, inner[start:])
	if len(args) < 2 {
		return "", "", false
	}
	return and(args[:len(args)-1]...), args[len(args)-1], true
}
