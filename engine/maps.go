package main

// Map model.  A Go map value is a reference; the contents of map objects live in
// three heaps per map type:
//
//	MH_<K>_<V> : Ref -> (Key -> Bool)   which keys are present
//	MV_<K>_<V> : Ref -> (Key -> V)      their values
//	ML_<K>_<V> : Ref -> Int             len(m)
//
// Keys of integer kinds are their integer value; string keys are compared by
// content, so the key is the abstract text of the string.  Maps with other key
// types keep the old abstraction (arbitrary well-typed lookup results).
// Iteration (range over a map) is not modelled: order and elements are arbitrary.

import (
	"fmt"
	"go/token"
	"go/types"
)

type mapModel struct {
	has, val, length          string // heap names
	hasSort, valSort, lenSort string
	keySort, elemSort         string
	keyT, elemT               types.Type
}

func (c *Ctx) mapModelOf(t types.Type) (*mapModel, bool) {
	mt, ok := t.Underlying().(*types.Map)
	if !ok {
		return nil, false
	}
	var ks string
	switch {
	case isInt(mt.Key()):
		ks = c.sortOf(mt.Key())
	case isString(mt.Key()):
		ks = c.sortOf(textType)
	default:
		return nil, false
	}
	es := c.sortOf(mt.Elem())
	id := sanitize(ks) + "_" + sanitize(es)
	m := &mapModel{
		has: "MH_" + id, val: "MV_" + id, length: "ML_" + id,
		hasSort:  fmt.Sprintf("(Array Int (Array %s Bool))", ks),
		valSort:  fmt.Sprintf("(Array Int (Array %s %s))", ks, es),
		lenSort:  fmt.Sprintf("(Array Int %s)", c.sortOf(types.Typ[types.Int])),
		keySort:  ks, elemSort: es, keyT: mt.Key(), elemT: mt.Elem(),
	}
	return m, true
}

// mapKey: the key term of a Go value used as a map key.
func (c *Ctx) mapKey(m *mapModel, k Val) string {
	if isString(m.keyT) {
		if k.T == textType {
			return k.S // contracts may give the key directly as a text
		}
		c.sortOf(textType)
		c.declStrEq()
		c.decl("fn:txt", "(declare-fun txt (Str) Txt)")
		c.decl("ax:txt", "(assert (forall ((a!t Str) (b!t Str)) (! (= (streq a!t b!t) (= (txt a!t) (txt b!t))) :pattern ((txt a!t) (txt b!t)))))")
		return fmt.Sprintf("(txt (mkstr (sarr %s) (soff %s) (slen %s) 0))", k.S, k.S, k.S)
	}
	return k.S
}

func (c *Ctx) mapHas(st *State, m *mapModel, ref, key string) string {
	return fmt.Sprintf("(and (not (= %s 0)) (select (select %s %s) %s))", ref, c.heap(st, m.has, m.hasSort), ref, key)
}

func (c *Ctx) mapVal(st *State, m *mapModel, ref, key string) string {
	return fmt.Sprintf("(select (select %s %s) %s)", c.heap(st, m.val, m.valSort), ref, key)
}

func (c *Ctx) mapLen(st *State, m *mapModel, ref string) string {
	I := types.Typ[types.Int]
	return fmt.Sprintf("(ite (= %s 0) %s (select %s %s))", ref, c.intLit2(0, I), c.heap(st, m.length, m.lenSort), ref)
}

func (f *Frame) execMakeMap(t types.Type) Val {
	c := f.c
	r := c.fresh("newmap", "Int")
	f.assumeFresh(r)
	if m, ok := c.mapModelOf(t); ok {
		I := types.Typ[types.Int]
		hh := c.heap(f.st, m.has, m.hasSort)
		f.st.heaps[m.has] = c.bind(m.has, fmt.Sprintf("(store %s %s ((as const (Array %s Bool)) false))", hh, r, m.keySort), m.hasSort)
		lh := c.heap(f.st, m.length, m.lenSort)
		f.st.heaps[m.length] = c.bind(m.length, fmt.Sprintf("(store %s %s %s)", lh, r, c.intLit2(0, I)), m.lenSort)
	} else {
		c.note("map values with non-integer, non-string keys are opaque references (contents not modelled)")
	}
	return Val{T: t, S: r}
}

func (f *Frame) execMapLookup(mv, kv Val, commaOk bool, resT types.Type) (Val, bool) {
	c := f.c
	m, ok := c.mapModelOf(mv.T)
	if !ok {
		return Val{}, false
	}
	key := c.mapKey(m, kv)
	has := c.define("maphas", c.mapHas(f.st, m, mv.S, key), "Bool")
	raw := c.mapVal(f.st, m, mv.S, key)
	val := c.bind("mapval", fmt.Sprintf("(ite %s %s %s)", has, raw, c.zero(m.elemT)), m.elemSort)
	if inv := c.typeInv(val, m.elemT); inv != "true" {
		c.assume(inv) // stored values are well-typed
	}
	rv := Val{T: m.elemT, S: val}
	if commaOk {
		return Val{T: resT, Tup: []Val{rv, {T: types.Typ[types.Bool], S: has}}}, true
	}
	return rv, true
}

func (f *Frame) execMapUpdate(mv, kv, vv Val, pos token.Pos) bool {
	c := f.c
	m, ok := c.mapModelOf(mv.T)
	if !ok {
		return false
	}
	I := types.Typ[types.Int]
	key := c.mapKey(m, kv)
	had := c.define("maphad", c.mapHas(f.st, m, mv.S, key), "Bool")
	f.frameWrite(m.has, mv.S, pos)
	f.frameWrite(m.val, mv.S, pos)
	f.frameWrite(m.length, mv.S, pos)
	hh := c.heap(f.st, m.has, m.hasSort)
	vh := c.heap(f.st, m.val, m.valSort)
	lh := c.heap(f.st, m.length, m.lenSort)
	f.st.heaps[m.has] = c.bind(m.has, fmt.Sprintf("(store %s %s (store (select %s %s) %s true))", hh, mv.S, hh, mv.S, key), m.hasSort)
	f.st.heaps[m.val] = c.bind(m.val, fmt.Sprintf("(store %s %s (store (select %s %s) %s %s))", vh, mv.S, vh, mv.S, key, vv.S), m.valSort)
	one := c.intLit2(1, I)
	f.st.heaps[m.length] = c.bind(m.length, fmt.Sprintf("(store %s %s (ite %s (select %s %s) %s))", lh, mv.S, had, lh, mv.S, c.arithNoCheck("+", fmt.Sprintf("(select %s %s)", lh, mv.S), one)), m.lenSort)
	return true
}

func (f *Frame) execMapDelete(mv, kv Val, pos token.Pos) bool {
	c := f.c
	m, ok := c.mapModelOf(mv.T)
	if !ok {
		return false
	}
	I := types.Typ[types.Int]
	key := c.mapKey(m, kv)
	had := c.define("maphad", c.mapHas(f.st, m, mv.S, key), "Bool")
	f.frameWrite(m.has, mv.S, pos)
	f.frameWrite(m.length, mv.S, pos)
	hh := c.heap(f.st, m.has, m.hasSort)
	lh := c.heap(f.st, m.length, m.lenSort)
	// delete on a nil map is a no-op: reads of reference 0 are guarded, so the store is harmless
	f.st.heaps[m.has] = c.bind(m.has, fmt.Sprintf("(store %s %s (store (select %s %s) %s false))", hh, mv.S, hh, mv.S, key), m.hasSort)
	one := c.intLit2(1, I)
	f.st.heaps[m.length] = c.bind(m.length, fmt.Sprintf("(store %s %s (ite %s %s (select %s %s)))", lh, mv.S, had, c.arithNoCheck("-", fmt.Sprintf("(select %s %s)", lh, mv.S), one), lh, mv.S), m.lenSort)
	return true
}

func (c *Ctx) arithNoCheck(op, a, b string) string {
	if c.mode == "bv" {
		if op == "+" {
			return fmt.Sprintf("(bvadd %s %s)", a, b)
		}
		return fmt.Sprintf("(bvsub %s %s)", a, b)
	}
	return fmt.Sprintf("(%s %s %s)", op, a, b)
}
