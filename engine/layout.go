package main

// Layout builtins of the contract language (C10): the pointer bitmap of a type or of
// the argument frame of a function type under the gc/amd64 layout, and the initial
// value of a package-level variable whose initializer is a composite literal of
// constants.
//
//	argwords(T)    number of 8-byte words of T (func type: its parameters laid out in order)
//	ptrword(T, i)  whether word i of T holds a pointer the garbage collector must see
//	initval(g)     the value of the composite-literal initializer of package variable g
//	               (an array value); fails when g is assigned anywhere else

import (
	"fmt"
	"go/ast"
	"go/constant"
	"go/token"
	"go/types"
	"math/big"

	"golang.org/x/tools/go/ssa"
)

// frameType: the type whose words are meant by argwords/ptrword.
func (c *Ctx) frameType(t types.Type) types.Type {
	if sig, ok := t.Underlying().(*types.Signature); ok {
		var fs []*types.Var
		for i := 0; i < sig.Params().Len(); i++ {
			p := sig.Params().At(i)
			fs = append(fs, types.NewField(token.NoPos, nil, fmt.Sprintf("a%d", i), p.Type(), false))
		}
		return types.NewStruct(fs, nil)
	}
	return t
}

func (c *Ctx) ptrBits(t types.Type) []bool {
	ft := c.frameType(t)
	sz := c.eng.sizes.Sizeof(ft)
	n := int((sz + 7) / 8)
	bits := make([]bool, n)
	c.markPtrs(ft, 0, bits)
	return bits
}

func (c *Ctx) markPtrs(t types.Type, off int64, bits []bool) {
	set := func(o int64) {
		if o%8 != 0 {
			panic(unsupported("misaligned pointer word in layout"))
		}
		bits[o/8] = true
	}
	switch u := t.Underlying().(type) {
	case *types.Basic:
		switch u.Kind() {
		case types.UnsafePointer:
			set(off)
		case types.String:
			set(off)
		}
	case *types.Pointer, *types.Map, *types.Chan, *types.Signature:
		set(off)
	case *types.Slice:
		set(off)
	case *types.Interface:
		set(off)
		set(off + 8)
	case *types.Struct:
		var fs []*types.Var
		for i := 0; i < u.NumFields(); i++ {
			fs = append(fs, u.Field(i))
		}
		offs := c.eng.sizes.Offsetsof(fs)
		for i, f := range fs {
			c.markPtrs(f.Type(), off+offs[i], bits)
		}
	case *types.Array:
		es := c.eng.sizes.Sizeof(u.Elem())
		for i := int64(0); i < u.Len(); i++ {
			c.markPtrs(u.Elem(), off+i*es, bits)
		}
	}
}

// ptrWordTerm: (ite (= i 0) b0 (ite (= i 1) b1 ... false))
func (c *Ctx) ptrWordTerm(bits []bool, i string, it types.Type) string {
	t := "false"
	for k := len(bits) - 1; k >= 0; k-- {
		b := "false"
		if bits[k] {
			b = "true"
		}
		t = fmt.Sprintf("(ite (= %s %s) %s %s)", i, c.intLit2(int64(k), it), b, t)
	}
	return t
}

func (c *Ctx) intLit2(v int64, t types.Type) string {
	return c.intLit(big.NewInt(v), t)
}

// initVal evaluates the composite-literal initializer of a package-level variable.
func (e *SpecEnv) initVal(name string) Val {
	c := e.c
	if e.pkg == nil {
		sfail("initval: no package")
	}
	g, ok := e.pkg.Members[name].(*ssa.Global)
	if !ok {
		sfail("initval: %s is not a package-level variable", name)
	}
	// the variable must be written exactly once, by the package initializer
	stores := 0
	for _, m := range e.pkg.Members {
		fn, ok := m.(*ssa.Function)
		if !ok {
			continue
		}
		fns := append([]*ssa.Function{fn}, fn.AnonFuncs...)
		for _, f := range fns {
			for _, b := range f.Blocks {
				for _, in := range b.Instrs {
					if st, ok := in.(*ssa.Store); ok && st.Addr == g {
						if f.Synthetic == "" || f.Name() != "init" {
							sfail("initval: %s is assigned in %s, not only by its initializer", name, f.Name())
						}
						stores++
					}
					// taking the address for anything but a load/store also voids the claim
					if u, ok := in.(*ssa.UnOp); ok && u.X == g {
						continue
					}
					for _, op := range in.Operands(nil) {
						if *op == ssa.Value(g) {
							if _, isStore := in.(*ssa.Store); !isStore {
								if _, isField := in.(*ssa.FieldAddr); !isField {
									sfail("initval: the address of %s escapes in %s", name, f.Name())
								}
							}
						}
					}
				}
			}
		}
	}
	for _, mth := range methodsOf(e.pkg) {
		for _, b := range mth.Blocks {
			for _, in := range b.Instrs {
				if st, ok := in.(*ssa.Store); ok && st.Addr == g {
					sfail("initval: %s is assigned in %s", name, mth.Name())
				}
			}
		}
	}
	if stores != 1 {
		sfail("initval: %s has %d initializing stores", name, stores)
	}
	// find the initializer expression in the syntax
	var lit *ast.CompositeLit
	var info *types.Info
	for _, p := range c.eng.pkgs {
		if p.Types != e.pkg.Pkg {
			continue
		}
		info = p.TypesInfo
		for _, f := range p.Syntax {
			for _, d := range f.Decls {
				gd, ok := d.(*ast.GenDecl)
				if !ok || gd.Tok != token.VAR {
					continue
				}
				for _, sp := range gd.Specs {
					vs := sp.(*ast.ValueSpec)
					for i, id := range vs.Names {
						if id.Name == name && i < len(vs.Values) {
							if cl, ok := vs.Values[i].(*ast.CompositeLit); ok {
								lit = cl
							}
						}
					}
				}
			}
		}
	}
	if lit == nil || info == nil {
		sfail("initval: %s has no composite-literal initializer", name)
	}
	var elem types.Type
	switch u := info.TypeOf(lit).Underlying().(type) {
	case *types.Slice:
		elem = u.Elem()
	case *types.Array:
		elem = u.Elem()
	default:
		sfail("initval: %s is not a slice or array literal", name)
	}
	es := c.sortOf(elem)
	arr := fmt.Sprintf("((as const (Array %s %s)) %s)", c.idxSort(), es, c.zero(elem))
	n := int64(0)
	for _, el := range lit.Elts {
		if _, isKV := el.(*ast.KeyValueExpr); isKV {
			sfail("initval: keyed elements are not supported")
		}
		tv, ok := info.Types[el]
		if !ok || tv.Value == nil {
			sfail("initval: element %d of %s is not a constant", n, name)
		}
		var term string
		switch tv.Value.Kind() {
		case constant.Bool:
			term = fmt.Sprint(constant.BoolVal(tv.Value))
		case constant.Int:
			bi, _ := new(big.Int).SetString(tv.Value.ExactString(), 10)
			term = c.intLit(bi, elem)
		default:
			sfail("initval: unsupported constant kind in %s", name)
		}
		arr = fmt.Sprintf("(store %s %s %s)", arr, c.idxLit(n), term)
		n++
	}
	return Val{T: types.NewArray(elem, n), S: arr}
}

func methodsOf(p *ssa.Package) []*ssa.Function {
	var out []*ssa.Function
	for _, m := range p.Members {
		t, ok := m.(*ssa.Type)
		if !ok {
			continue
		}
		for _, tt := range []types.Type{t.Type(), types.NewPointer(t.Type())} {
			ms := p.Prog.MethodSets.MethodSet(tt)
			for i := 0; i < ms.Len(); i++ {
				if f := p.Prog.MethodValue(ms.At(i)); f != nil && f.Pkg == p {
					out = append(out, f)
					out = append(out, f.AnonFuncs...)
				}
			}
		}
	}
	return out
}

// constFuncGlobal: a package-level variable of function type that is assigned exactly
// once in the whole loaded program, by its own package initializer, with a named
// function (e.g. `var NewDecoder = api.NewDecoder`).  A call through it is a call of
// that function.  (The single-assignment scan covers every package loaded from /repo; a
// third package assigning the exported variable at run time is outside the model and is
// listed as a note.)
func (e *Engine) constFuncGlobal(g *ssa.Global) *ssa.Function {
	e.cfgMu.Lock()
	defer e.cfgMu.Unlock()
	if e.cfgCache == nil {
		e.cfgCache = map[*ssa.Global]*ssa.Function{}
	}
	if fn, ok := e.cfgCache[g]; ok {
		return fn
	}
	var found *ssa.Function
	stores := 0
	scan := func(f *ssa.Function) {
		for _, b := range f.Blocks {
			for _, in := range b.Instrs {
				st, ok := in.(*ssa.Store)
				if !ok || st.Addr != ssa.Value(g) {
					continue
				}
				stores++
				v := st.Val
				if ct, ok := v.(*ssa.ChangeType); ok {
					v = ct.X
				}
				if fn, ok := v.(*ssa.Function); ok && f.Synthetic != "" && f.Name() == "init" && f.Pkg == g.Pkg {
					found = fn
				} else {
					found = nil
					stores += 100
				}
			}
		}
	}
	for _, p := range e.prog.AllPackages() {
		for _, m := range p.Members {
			if fn, ok := m.(*ssa.Function); ok {
				scan(fn)
				for _, a := range fn.AnonFuncs {
					scan(a)
				}
			}
		}
		for _, mth := range methodsOf(p) {
			scan(mth)
		}
	}
	if stores != 1 {
		found = nil
	}
	e.cfgCache[g] = found
	return found
}
