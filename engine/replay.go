package main

// Replay files: every undischarged obligation is recorded with the solver's
// output; when the model gives concrete scalar/string/byte-slice inputs for a
// function whose parameters are of those kinds, a Go test calling the real
// function is generated and run with `go test -overlay` (nothing is written
// into /repo).

import (
	"encoding/json"
	"fmt"
	"os"
	"os/exec"
	"path/filepath"
	"strings"
	"time"
)

func writeReplay(e *Engine, prop string, o *Obligation) string {
	dir := filepath.Join(verifDir, "replays", prop)
	os.MkdirAll(dir, 0o755)
	path := filepath.Join(dir, sanitize(o.Name)+".json")
	rec := map[string]interface{}{
		"property":      prop,
		"obligation":    o.Name,
		"kind":          o.Kind,
		"function":      o.Func,
		"at":            o.Pos,
		"clause":        o.Text,
		"status":        o.Status,
		"solver":        o.Solver,
		"solver_output": truncate(o.Output, 20000),
		"model":         truncate(o.Model, 100000),
	}
	if o.Status == "sat" && o.Model != "" {
		if test, pkgDir, ok := e.genReplayTest(o); ok {
			rec["replay_test"] = test
			rec["replay_pkg_dir"] = pkgDir
			out, failed := runReplayTest(pkgDir, test)
			rec["replay_output"] = truncate(out, 20000)
			rec["replay_reproduced"] = failed
		}
	}
	b, _ := json.MarshalIndent(rec, "", " ")
	os.WriteFile(path, b, 0o644)
	return path
}

func truncate(s string, n int) string {
	if len(s) > n {
		return s[:n] + "...[truncated]"
	}
	return s
}

func replayReproduced(path string) bool {
	b, err := os.ReadFile(path)
	if err != nil {
		return false
	}
	var r map[string]interface{}
	if json.Unmarshal(b, &r) != nil {
		return false
	}
	v, _ := r["replay_reproduced"].(bool)
	return v
}

// runReplayTest injects the test into the package with -overlay and runs it.
// Returns the output and whether the test FAILED (i.e. the violation reproduces).
func runReplayTest(pkgDir, test string) (string, bool) {
	tmp, err := os.MkdirTemp("", "gowp-replay-")
	if err != nil {
		return err.Error(), false
	}
	defer os.RemoveAll(tmp)
	tf := filepath.Join(tmp, "zz_verif_replay_test.go")
	os.WriteFile(tf, []byte(test), 0o644)
	ov := map[string]interface{}{"Replace": map[string]string{filepath.Join(repoDir, pkgDir, "zz_verif_replay_test.go"): tf}}
	ob, _ := json.Marshal(ov)
	ovf := filepath.Join(tmp, "overlay.json")
	os.WriteFile(ovf, ob, 0o644)
	cmd := exec.Command("go", "test", "-overlay", ovf, "-vet=off", "-count=1", "-timeout", "60s", "-run", "^TestVerifReplay$", ".")
	cmd.Dir = filepath.Join(repoDir, pkgDir)
	cmd.Env = append(os.Environ(), "GOFLAGS=", "GOPROXY=off", "GOSUMDB=off", "GOTOOLCHAIN=local")
	done := make(chan struct{})
	var out []byte
	go func() { out, err = cmd.CombinedOutput(); close(done) }()
	select {
	case <-done:
	case <-time.After(180 * time.Second):
		if cmd.Process != nil {
			cmd.Process.Kill()
		}
		<-done
	}
	s := string(out)
	failed := strings.Contains(s, "--- FAIL: TestVerifReplay") || strings.Contains(s, "panic:")
	return s, failed
}

func (e *Engine) genReplayTest(o *Obligation) (test string, pkgDir string, ok bool) {
	return genReplay(e, o)
}

var _ = fmt.Sprintf
