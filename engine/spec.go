package main

// Contract language: lexer, parser, AST.
//
// Contract files are comment-only Go files (zz_verif_contracts.go, build tag
// "verif") whose "//@" lines are concatenated and parsed here.

import (
	"fmt"
	"strings"
	"unicode"
)

// ---------- AST ----------

type SExpr interface{ String() string }

type (
	SIdent  struct{ Name string }
	SNum    struct{ V string }           // decimal text (arbitrary precision)
	SStr    struct{ V string }           // string literal
	SBool   struct{ V bool }
	SNil    struct{}
	SUnary  struct{ Op string; X SExpr } // ! - ^ * (deref)
	SBinary struct {
		Op   string
		X, Y SExpr
	}
	SField struct {
		X    SExpr
		Name string
	}
	SIndex struct{ X, I SExpr }
	SSlice struct{ X, Lo, Hi SExpr }
	SCall  struct {
		Fn   string
		Args []SExpr
	}
	SOld   struct{ X SExpr }
	SQuant struct {
		Forall bool
		Vars   []SParam
		Body   SExpr
		Pats   [][]SExpr
	}
	SIte struct{ C, A, B SExpr }
)

type SParam struct {
	Name string
	Type string // Go type name as written: int, byte, uint64, bool, string, []byte, or a named type
}

func (e *SIdent) String() string  { return e.Name }
func (e *SNum) String() string    { return e.V }
func (e *SStr) String() string    { return fmt.Sprintf("%q", e.V) }
func (e *SBool) String() string   { return fmt.Sprint(e.V) }
func (e *SNil) String() string    { return "nil" }
func (e *SUnary) String() string  { return "(" + e.Op + e.X.String() + ")" }
func (e *SBinary) String() string { return "(" + e.X.String() + " " + e.Op + " " + e.Y.String() + ")" }
func (e *SField) String() string  { return e.X.String() + "." + e.Name }
func (e *SIndex) String() string  { return e.X.String() + "[" + e.I.String() + "]" }
func (e *SSlice) String() string {
	lo, hi := "", ""
	if e.Lo != nil {
		lo = e.Lo.String()
	}
	if e.Hi != nil {
		hi = e.Hi.String()
	}
	return e.X.String() + "[" + lo + ":" + hi + "]"
}
func (e *SCall) String() string {
	var a []string
	for _, x := range e.Args {
		a = append(a, x.String())
	}
	return e.Fn + "(" + strings.Join(a, ", ") + ")"
}
func (e *SOld) String() string { return "old(" + e.X.String() + ")" }
func (e *SQuant) String() string {
	q := "exists"
	if e.Forall {
		q = "forall"
	}
	var v []string
	for _, p := range e.Vars {
		v = append(v, p.Name+" "+p.Type)
	}
	return "(" + q + " " + strings.Join(v, ", ") + " :: " + e.Body.String() + ")"
}
func (e *SIte) String() string {
	return "ite(" + e.C.String() + ", " + e.A.String() + ", " + e.B.String() + ")"
}

// ---------- contract records ----------

type Clause struct {
	Kind  string // requires ensures invariant decreases assert
	Props []string
	Expr  SExpr
	Text  string
	Line  int
	Name  string // optional label
}

type LoopSpec struct {
	Inv      []*Clause
	Dec      *Clause
	Modifies []SExpr
	Asserts  []*Clause // proved at the end of the loop body (before the invariant is re-established), then assumed: lemma instances
}

type FuncContract struct {
	Key      string // e.g. "(*_ProgramMap).get", "calcBounds", "Config.Froze"
	Pkg      string
	Props    []string
	Mode     string // "int" (default) or "bv"
	Requires []*Clause
	Ensures  []*Clause
	Loops    map[int]*LoopSpec
	Modifies []SExpr
	HasMod   bool
	Assumed  bool   // assume-contract: body not verified (native, stdlib, runtime)
	Inline   bool   // force inlining at call sites
	Trusted  string // reason text for assumed
	NoSweep  bool
	Wraps    bool // arithmetic overflow is intended (no overflow obligations)
	Params   []SParam // for assumed contracts on functions w/o body in scope: names (optional)
	Results  []SParam
	Line     int
	File     string
	Panics   []*Clause // panics_if: conditions under which explicit panic is the documented behaviour
	ModAll   bool     // "modifies anything"
	TextOps  bool     // append also states its effect on texts (opt-in: costs quantifiers)
	Opaque   []string // callee names to treat as havoc (explicitly abstracted), listed in evidence
	Ghost    map[string]string
	Pure     bool // function has no side effects (modifies nothing)
	Unroll   int
	Asserts  []*Clause
	After    map[string][]*Clause // "after <callee>: assert e": lemma instances proved (then assumed) right after each call of <callee>
	Witness  []*WitnessVar // existential witnesses of the postconditions, given as expressions over locals at return
}

type WitnessVar struct {
	Name string
	Type string
	Expr SExpr
}

type PureFunc struct {
	Name   string
	Params []SParam
	Ret    string
	Body   SExpr // nil => uninterpreted
	Rec    bool
	Pkg    string
	Line   int
}

type Axiom struct {
	Name string
	Expr SExpr
	Pkg  string
	Text string
	Line int
	Mode string // "", "int", "bv": restrict to mode
}

type Lemma struct {
	Name string
	Expr SExpr
	Pkg  string
	Text string
	Line int
	Mode string
	Props []string
}

type DataInv struct { // data invariant over package-level constants/vars evaluated by go/types constant folding or SMT
	Name  string
	Props []string
	Expr  SExpr
	Text  string
	Pkg   string
	Line  int
	Mode  string
}

type GhostVar struct {
	Name string
	Type string
}

type ContractFile struct {
	Ghosts []*GhostVar
	Pkg    string
	File   string
	Funcs  []*FuncContract
	Pures  []*PureFunc
	Axioms []*Axiom
	Lemmas []*Lemma
	Invs   []*DataInv
}

// ---------- lexer ----------

type tok struct {
	k string // ident num str char op eof
	v string
	p int
}

func lex(s string) ([]tok, error) {
	var out []tok
	i := 0
	for i < len(s) {
		c := s[i]
		switch {
		case c == ' ' || c == '\t' || c == '\n' || c == '\r':
			i++
		case unicode.IsLetter(rune(c)) || c == '_' || c == '$':
			j := i
			for j < len(s) && (unicode.IsLetter(rune(s[j])) || unicode.IsDigit(rune(s[j])) || s[j] == '_' || s[j] == '$') {
				j++
			}
			out = append(out, tok{"ident", s[i:j], i})
			i = j
		case c >= '0' && c <= '9':
			j := i
			if c == '0' && j+1 < len(s) && (s[j+1] == 'x' || s[j+1] == 'X') {
				j += 2
				for j < len(s) && (isHex(s[j]) || s[j] == '_') {
					j++
				}
			} else {
				for j < len(s) && (s[j] >= '0' && s[j] <= '9' || s[j] == '_') {
					j++
				}
			}
			out = append(out, tok{"num", strings.ReplaceAll(s[i:j], "_", ""), i})
			i = j
		case c == '"':
			j := i + 1
			var sb strings.Builder
			for j < len(s) && s[j] != '"' {
				if s[j] == '\\' && j+1 < len(s) {
					j++
					switch s[j] {
					case 'n':
						sb.WriteByte('\n')
					case 't':
						sb.WriteByte('\t')
					case 'r':
						sb.WriteByte('\r')
					case '\\':
						sb.WriteByte('\\')
					case '"':
						sb.WriteByte('"')
					case 'x':
						if j+2 < len(s) {
							var v int
							fmt.Sscanf(s[j+1:j+3], "%02x", &v)
							sb.WriteByte(byte(v))
							j += 2
						}
					default:
						sb.WriteByte(s[j])
					}
					j++
					continue
				}
				sb.WriteByte(s[j])
				j++
			}
			if j >= len(s) {
				return nil, fmt.Errorf("unterminated string at %d", i)
			}
			out = append(out, tok{"str", sb.String(), i})
			i = j + 1
		case c == '\'':
			// char literal
			j := i + 1
			var v int
			if j < len(s) && s[j] == '\\' {
				j++
				switch s[j] {
				case 'n':
					v = '\n'
				case 't':
					v = '\t'
				case 'r':
					v = '\r'
				case '\\':
					v = '\\'
				case '\'':
					v = '\''
				case '"':
					v = '"'
				case 'x':
					fmt.Sscanf(s[j+1:j+3], "%02x", &v)
					j += 2
				default:
					return nil, fmt.Errorf("bad char escape at %d", i)
				}
				j++
			} else {
				v = int(s[j])
				j++
			}
			if j >= len(s) || s[j] != '\'' {
				return nil, fmt.Errorf("bad char literal at %d", i)
			}
			out = append(out, tok{"num", fmt.Sprint(v), i})
			i = j + 1
		default:
			ops := []string{"<==>", "==>", "&&", "||", "==", "!=", "<=", ">=", "<<", ">>", "&^", "::", "..",
				"+", "-", "*", "/", "%", "&", "|", "^", "!", "<", ">", "(", ")", "[", "]", "{", "}", ",", ":", ".", "?", "=", ";", "#", "@"}
			matched := false
			for _, op := range ops {
				if strings.HasPrefix(s[i:], op) {
					out = append(out, tok{"op", op, i})
					i += len(op)
					matched = true
					break
				}
			}
			if !matched {
				return nil, fmt.Errorf("unexpected character %q at %d in %q", c, i, s)
			}
		}
	}
	out = append(out, tok{"eof", "", len(s)})
	return out, nil
}

func isHex(c byte) bool {
	return c >= '0' && c <= '9' || c >= 'a' && c <= 'f' || c >= 'A' && c <= 'F'
}

// ---------- parser ----------

type parser struct {
	toks []tok
	i    int
	src  string
}

func (p *parser) peek() tok { return p.toks[p.i] }
func (p *parser) next() tok { t := p.toks[p.i]; p.i++; return t }
func (p *parser) isOp(v string) bool {
	t := p.peek()
	return t.k == "op" && t.v == v
}
func (p *parser) isIdent(v string) bool {
	t := p.peek()
	return t.k == "ident" && t.v == v
}
func (p *parser) accept(v string) bool {
	if p.isOp(v) {
		p.i++
		return true
	}
	return false
}
func (p *parser) expect(v string) {
	if !p.accept(v) {
		panic(fmt.Errorf("expected %q at %d in %q (got %q)", v, p.peek().p, p.src, p.peek().v))
	}
}

func parseSpecExpr(s string) (e SExpr, err error) {
	toks, err := lex(s)
	if err != nil {
		return nil, err
	}
	p := &parser{toks: toks, src: s}
	defer func() {
		if r := recover(); r != nil {
			if er, ok := r.(error); ok {
				err = er
				return
			}
			panic(r)
		}
	}()
	e = p.expr()
	if p.peek().k != "eof" {
		return nil, fmt.Errorf("trailing tokens at %d in %q", p.peek().p, s)
	}
	return e, nil
}

func (p *parser) expr() SExpr {
	if p.isIdent("forall") || p.isIdent("exists") {
		fa := p.next().v == "forall"
		var vars []SParam
		for {
			n := p.next()
			if n.k != "ident" {
				panic(fmt.Errorf("quantifier variable expected in %q", p.src))
			}
			ty := p.typeName()
			vars = append(vars, SParam{n.v, ty})
			if !p.accept(",") {
				break
			}
		}
		p.expect("::")
		var pats [][]SExpr
		for p.isOp("{") {
			p.next()
			var pat []SExpr
			for {
				pat = append(pat, p.expr())
				if !p.accept(",") {
					break
				}
			}
			p.expect("}")
			pats = append(pats, pat)
		}
		body := p.expr()
		return &SQuant{Forall: fa, Vars: vars, Body: body, Pats: pats}
	}
	return p.iff()
}

func (p *parser) typeName() string {
	var sb strings.Builder
	for p.isOp("[") || p.isOp("*") {
		if p.accept("*") {
			sb.WriteString("*")
			continue
		}
		p.next()
		p.expect("]")
		sb.WriteString("[]")
	}
	t := p.next()
	if t.k != "ident" {
		panic(fmt.Errorf("type name expected at %d in %q", t.p, p.src))
	}
	sb.WriteString(t.v)
	for p.isOp(".") {
		p.next()
		sb.WriteString("." + p.next().v)
	}
	return sb.String()
}

func (p *parser) iff() SExpr {
	x := p.implies()
	for p.accept("<==>") {
		y := p.implies()
		x = &SBinary{"<==>", x, y}
	}
	return x
}

func (p *parser) implies() SExpr {
	x := p.or()
	if p.accept("==>") {
		var y SExpr
		if p.isIdent("forall") || p.isIdent("exists") {
			y = p.expr()
		} else {
			y = p.implies()
		}
		return &SBinary{"==>", x, y}
	}
	return x
}

func (p *parser) or() SExpr {
	x := p.and()
	for p.accept("||") {
		x = &SBinary{"||", x, p.and()}
	}
	return x
}

func (p *parser) and() SExpr {
	x := p.cmp()
	for p.accept("&&") {
		var y SExpr
		if p.isIdent("forall") || p.isIdent("exists") {
			y = p.expr()
		} else {
			y = p.cmp()
		}
		x = &SBinary{"&&", x, y}
	}
	return x
}

var cmpOps = map[string]bool{"==": true, "!=": true, "<": true, "<=": true, ">": true, ">=": true}

func (p *parser) cmp() SExpr {
	x := p.add()
	var res SExpr
	for p.peek().k == "op" && cmpOps[p.peek().v] {
		op := p.next().v
		y := p.add()
		c := &SBinary{op, x, y}
		if res == nil {
			res = c
		} else {
			res = &SBinary{"&&", res, c}
		}
		x = y
	}
	if res == nil {
		return x
	}
	return res
}

func (p *parser) add() SExpr {
	x := p.mul()
	for p.peek().k == "op" && (p.peek().v == "+" || p.peek().v == "-" || p.peek().v == "|" || p.peek().v == "^") {
		op := p.next().v
		x = &SBinary{op, x, p.mul()}
	}
	return x
}

func (p *parser) mul() SExpr {
	x := p.unary()
	for p.peek().k == "op" {
		switch p.peek().v {
		case "*", "/", "%", "&", "<<", ">>", "&^":
			op := p.next().v
			x = &SBinary{op, x, p.unary()}
			continue
		}
		break
	}
	return x
}

func (p *parser) unary() SExpr {
	if p.peek().k == "op" {
		switch p.peek().v {
		case "!", "-", "^", "*", "&":
			op := p.next().v
			return &SUnary{op, p.unary()}
		}
	}
	return p.postfix()
}

func (p *parser) postfix() SExpr {
	x := p.primary()
	for {
		switch {
		case p.isOp("."):
			p.next()
			n := p.next()
			if n.k != "ident" {
				panic(fmt.Errorf("field name expected at %d in %q", n.p, p.src))
			}
			if id, ok := x.(*SIdent); ok && p.isOp("(") {
				// qualified call pkg.f(args)
				p.next()
				var args []SExpr
				if !p.isOp(")") {
					for {
						args = append(args, p.expr())
						if !p.accept(",") {
							break
						}
					}
				}
				p.expect(")")
				x = &SCall{id.Name + "." + n.v, args}
				continue
			}
			x = &SField{x, n.v}
		case p.isOp("["):
			p.next()
			var lo, hi SExpr
			if p.isOp(":") {
				p.next()
				if !p.isOp("]") {
					hi = p.expr()
				}
				p.expect("]")
				x = &SSlice{x, nil, hi}
				continue
			}
			lo = p.expr()
			if p.accept(":") {
				if !p.isOp("]") {
					hi = p.expr()
				}
				p.expect("]")
				x = &SSlice{x, lo, hi}
				continue
			}
			p.expect("]")
			x = &SIndex{x, lo}
		default:
			return x
		}
	}
}

func (p *parser) primary() SExpr {
	t := p.next()
	switch t.k {
	case "num":
		return &SNum{t.v}
	case "str":
		return &SStr{t.v}
	case "ident":
		switch t.v {
		case "true":
			return &SBool{true}
		case "false":
			return &SBool{false}
		case "nil":
			return &SNil{}
		}
		name := t.v
		// qualified name pkg.Name handled as SField on SIdent; calls only on plain/qualified idents
		if p.isOp("(") {
			p.next()
			var args []SExpr
			if !p.isOp(")") {
				for {
					args = append(args, p.expr())
					if !p.accept(",") {
						break
					}
				}
			}
			p.expect(")")
			if name == "old" {
				if len(args) != 1 {
					panic(fmt.Errorf("old takes one argument"))
				}
				return &SOld{args[0]}
			}
			if name == "ite" {
				if len(args) != 3 {
					panic(fmt.Errorf("ite takes three arguments"))
				}
				return &SIte{args[0], args[1], args[2]}
			}
			return &SCall{name, args}
		}
		return &SIdent{name}
	case "op":
		if t.v == "(" {
			e := p.expr()
			p.expect(")")
			return e
		}
	}
	panic(fmt.Errorf("unexpected token %q at %d in %q", t.v, t.p, p.src))
}

// ---------- contract file parsing ----------

// parseContractLines parses the concatenated "//@" lines of one file.
// Grammar (line oriented; continuation lines start with "|"):
//
//	func <key> [props C01,C02] [mode bv] [assumed "<reason>"] [inline] [wraps]
//	  requires <expr>
//	  ensures[C01] <expr>
//	  modifies <lvalue>, <lvalue>
//	  loop <n>: invariant <expr>
//	  loop <n>: decreases <expr>
//	  loop <n>: modifies <lvalue>
//	  panics_if <expr>
//	pure func name(a int, b []byte) bool = <expr>
//	pure func name(a int) int                      (uninterpreted)
//	axiom name: <expr>
//	lemma name [props ...]: <expr>
//	datainv name props C18: <expr>
type rawLine struct {
	text string
	line int
}

func parseContractLines(pkg, file string, lines []rawLine) (*ContractFile, error) {
	cf := &ContractFile{Pkg: pkg, File: file}
	// join continuation lines
	var joined []rawLine
	for _, l := range lines {
		t := strings.TrimSpace(l.text)
		if t == "" || strings.HasPrefix(t, "#") {
			continue
		}
		if strings.HasPrefix(t, "|") && len(joined) > 0 {
			joined[len(joined)-1].text += " " + strings.TrimSpace(t[1:])
			continue
		}
		joined = append(joined, rawLine{t, l.line})
	}
	var cur *FuncContract
	perr := func(l rawLine, err error) error {
		return fmt.Errorf("%s:%d: %v", file, l.line, err)
	}
	for _, l := range joined {
		t := l.text
		word, rest := splitWord(t)
		switch word {
		case "func":
			key, rest2 := splitKey(rest)
			fc := &FuncContract{Key: key, Pkg: pkg, Mode: "int", Loops: map[int]*LoopSpec{}, Line: l.line, File: file}
			for rest2 != "" {
				var w string
				w, rest2 = splitWord(rest2)
				switch w {
				case "props":
					var ps string
					ps, rest2 = splitWord(rest2)
					fc.Props = strings.Split(ps, ",")
				case "mode":
					fc.Mode, rest2 = splitWord(rest2)
				case "assumed":
					fc.Assumed = true
					rest2 = strings.TrimSpace(rest2)
					if strings.HasPrefix(rest2, "\"") {
						j := strings.Index(rest2[1:], "\"")
						if j < 0 {
							return nil, perr(l, fmt.Errorf("unterminated reason"))
						}
						fc.Trusted = rest2[1 : 1+j]
						rest2 = strings.TrimSpace(rest2[j+2:])
					}
				case "inline":
					fc.Inline = true
				case "wraps":
					fc.Wraps = true
				case "textops":
					fc.TextOps = true
				case "nosweep":
					fc.NoSweep = true
				case "pure":
					fc.Pure = true
				default:
					return nil, perr(l, fmt.Errorf("unknown func attribute %q", w))
				}
			}
			cf.Funcs = append(cf.Funcs, fc)
			cur = fc
		case "pure":
			w2, rest2 := splitWord(rest)
			if w2 != "func" {
				return nil, perr(l, fmt.Errorf("expected 'pure func'"))
			}
			pf, err := parsePureFunc(rest2)
			if err != nil {
				return nil, perr(l, err)
			}
			pf.Pkg = pkg
			pf.Line = l.line
			for _, q := range cf.Pures {
				if q.Name == pf.Name && q.Pkg == pf.Pkg {
					return nil, perr(l, fmt.Errorf("spec function %s declared twice (first at line %d)", pf.Name, q.Line))
				}
			}
			cf.Pures = append(cf.Pures, pf)
			cur = nil
		case "ghost":
			f := strings.Fields(rest)
			if len(f) != 2 || !strings.HasPrefix(f[0], "$") {
				return nil, perr(l, fmt.Errorf("ghost $name type"))
			}
			cf.Ghosts = append(cf.Ghosts, &GhostVar{f[0], f[1]})
			cur = nil
		case "axiom", "lemma", "datainv":
			i := strings.Index(rest, ":")
			if i < 0 {
				return nil, perr(l, fmt.Errorf("expected ':'"))
			}
			head := strings.Fields(rest[:i])
			body := strings.TrimSpace(rest[i+1:])
			e, err := parseSpecExpr(body)
			if err != nil {
				return nil, perr(l, err)
			}
			name := head[0]
			var props []string
			mode := ""
			for k := 1; k+1 < len(head); k += 2 {
				switch head[k] {
				case "props":
					props = strings.Split(head[k+1], ",")
				case "mode":
					mode = head[k+1]
				}
			}
			switch word {
			case "axiom":
				cf.Axioms = append(cf.Axioms, &Axiom{Name: name, Expr: e, Pkg: pkg, Text: body, Line: l.line, Mode: mode})
			case "lemma":
				cf.Lemmas = append(cf.Lemmas, &Lemma{Name: name, Expr: e, Pkg: pkg, Text: body, Line: l.line, Mode: mode, Props: props})
			case "datainv":
				cf.Invs = append(cf.Invs, &DataInv{Name: name, Expr: e, Pkg: pkg, Text: body, Line: l.line, Props: props, Mode: mode})
			}
			cur = nil
		default:
			if cur == nil {
				return nil, perr(l, fmt.Errorf("clause %q outside a func contract", word))
			}
			// clause with optional [props] and optional label "name:"
			kind := word
			var props []string
			if i := strings.Index(kind, "["); i >= 0 && strings.HasSuffix(kind, "]") {
				props = strings.Split(kind[i+1:len(kind)-1], ",")
				kind = kind[:i]
			}
			if word == "after" {
				// after <callee>: assert <expr>
				j := strings.Index(rest, ":")
				if j < 0 {
					return nil, perr(l, fmt.Errorf("after <callee>: assert <expr>"))
				}
				callee := strings.TrimSpace(rest[:j])
				body := strings.TrimSpace(rest[j+1:])
				ckind := "assert"
				if strings.HasPrefix(body, "assume ") {
					// an explicit, unchecked assumption about the state after the call (listed in the evidence)
					ckind = "assume"
					body = "assert " + strings.TrimPrefix(body, "assume ")
				}
				if !strings.HasPrefix(body, "assert ") {
					return nil, perr(l, fmt.Errorf("after <callee>: assert <expr> | assume <expr>"))
				}
				body = strings.TrimSpace(strings.TrimPrefix(body, "assert "))
				e, err := parseSpecExpr(body)
				if err != nil {
					return nil, perr(l, err)
				}
				if cur.After == nil {
					cur.After = map[string][]*Clause{}
				}
				cur.After[callee] = append(cur.After[callee], &Clause{Kind: ckind, Expr: e, Text: body, Line: l.line})
				continue
			}
			switch kind {
			case "assert":
				// function-level assert: proved at every return before the postconditions, then assumed
				e, err := parseSpecExpr(rest)
				if err != nil {
					return nil, perr(l, err)
				}
				cur.Asserts = append(cur.Asserts, &Clause{Kind: "assert", Props: props, Expr: e, Text: rest, Line: l.line})
			case "requires", "ensures", "panics_if":
				name := ""
				e, err := parseSpecExpr(rest)
				if err != nil {
					return nil, perr(l, err)
				}
				c := &Clause{Kind: kind, Props: props, Expr: e, Text: rest, Line: l.line, Name: name}
				switch kind {
				case "requires":
					cur.Requires = append(cur.Requires, c)
				case "ensures":
					cur.Ensures = append(cur.Ensures, c)
				case "panics_if":
					cur.Panics = append(cur.Panics, c)
				}
			case "modifies":
				cur.HasMod = true
				if strings.TrimSpace(rest) == "anything" {
					// user callbacks and the like: any memory may change (callers must say the same)
					cur.ModAll = true
				} else if strings.TrimSpace(rest) != "nothing" {
					for _, part := range splitTop(rest) {
						e, err := parseSpecExpr(part)
						if err != nil {
							return nil, perr(l, err)
						}
						cur.Modifies = append(cur.Modifies, e)
					}
				}
			case "witness":
				// witness q int = <expr over locals at the return point>
				i := strings.Index(rest, "=")
				f := strings.Fields(rest[:max0(i)])
				if i < 0 || len(f) != 2 {
					return nil, perr(l, fmt.Errorf("witness <name> <type> = <expr>"))
				}
				e, err := parseSpecExpr(strings.TrimSpace(rest[i+1:]))
				if err != nil {
					return nil, perr(l, err)
				}
				cur.Witness = append(cur.Witness, &WitnessVar{f[0], f[1], e})
			case "opaque":
				cur.Opaque = append(cur.Opaque, strings.Fields(strings.ReplaceAll(rest, ",", " "))...)
			case "unroll":
				fmt.Sscanf(rest, "%d", &cur.Unroll)
			case "loop":
				var n int
				i := strings.Index(rest, ":")
				if i < 0 {
					return nil, perr(l, fmt.Errorf("loop <n>: ..."))
				}
				if _, err := fmt.Sscanf(strings.TrimSpace(rest[:i]), "%d", &n); err != nil {
					return nil, perr(l, err)
				}
				sub, body := splitWord(strings.TrimSpace(rest[i+1:]))
				ls := cur.Loops[n]
				if ls == nil {
					ls = &LoopSpec{}
					cur.Loops[n] = ls
				}
				var lprops []string
				if i := strings.Index(sub, "["); i >= 0 && strings.HasSuffix(sub, "]") {
					lprops = strings.Split(sub[i+1:len(sub)-1], ",")
					sub = sub[:i]
				}
				switch sub {
				case "invariant", "decreases", "assert":
					e, err := parseSpecExpr(body)
					if err != nil {
						return nil, perr(l, err)
					}
					c := &Clause{Kind: sub, Expr: e, Text: body, Line: l.line, Props: lprops}
					switch sub {
					case "invariant":
						ls.Inv = append(ls.Inv, c)
					case "assert":
						ls.Asserts = append(ls.Asserts, c)
					default:
						ls.Dec = c
					}
				case "modifies":
					for _, part := range splitTop(body) {
						e, err := parseSpecExpr(part)
						if err != nil {
							return nil, perr(l, err)
						}
						ls.Modifies = append(ls.Modifies, e)
					}
				default:
					return nil, perr(l, fmt.Errorf("unknown loop clause %q", sub))
				}
			default:
				return nil, perr(l, fmt.Errorf("unknown clause %q", kind))
			}
		}
	}
	return cf, nil
}

func splitWord(s string) (string, string) {
	s = strings.TrimSpace(s)
	i := strings.IndexAny(s, " \t")
	if i < 0 {
		return s, ""
	}
	return s[:i], strings.TrimSpace(s[i+1:])
}

// splitKey reads a function key, which may contain parentheses: (*T).name
func splitKey(s string) (string, string) {
	s = strings.TrimSpace(s)
	depth := 0
	for i := 0; i < len(s); i++ {
		switch s[i] {
		case '(':
			depth++
		case ')':
			depth--
		case ' ', '\t':
			if depth == 0 {
				return s[:i], strings.TrimSpace(s[i+1:])
			}
		}
	}
	return s, ""
}

// splitTop splits on commas not nested in brackets/parens.
func splitTop(s string) []string {
	var out []string
	depth := 0
	start := 0
	for i := 0; i < len(s); i++ {
		switch s[i] {
		case '(', '[':
			depth++
		case ')', ']':
			depth--
		case ',':
			if depth == 0 {
				out = append(out, strings.TrimSpace(s[start:i]))
				start = i + 1
			}
		}
	}
	if strings.TrimSpace(s[start:]) != "" {
		out = append(out, strings.TrimSpace(s[start:]))
	}
	return out
}

func parsePureFunc(s string) (*PureFunc, error) {
	// name(a int, b []byte) ret [= expr]
	i := strings.Index(s, "(")
	if i < 0 {
		return nil, fmt.Errorf("pure func: '(' expected")
	}
	pf := &PureFunc{Name: strings.TrimSpace(s[:i])}
	j := strings.Index(s, ")")
	if j < 0 {
		return nil, fmt.Errorf("pure func: ')' expected")
	}
	for _, part := range splitTop(s[i+1 : j]) {
		f := strings.Fields(part)
		if len(f) != 2 {
			return nil, fmt.Errorf("pure func: bad parameter %q", part)
		}
		pf.Params = append(pf.Params, SParam{f[0], f[1]})
	}
	rest := strings.TrimSpace(s[j+1:])
	k := strings.Index(rest, "=")
	// careful: "==" cannot occur before the defining '='
	if k >= 0 {
		pf.Ret = strings.TrimSpace(rest[:k])
		body := strings.TrimSpace(rest[k+1:])
		e, err := parseSpecExpr(body)
		if err != nil {
			return nil, err
		}
		pf.Body = e
		pf.Rec = mentionsCall(e, pf.Name)
	} else {
		pf.Ret = rest
	}
	if pf.Ret == "" {
		return nil, fmt.Errorf("pure func %s: return type expected", pf.Name)
	}
	return pf, nil
}

func mentionsCall(e SExpr, name string) bool {
	found := false
	walkSpec(e, func(x SExpr) {
		if c, ok := x.(*SCall); ok && c.Fn == name {
			found = true
		}
	})
	return found
}

func walkSpec(e SExpr, f func(SExpr)) {
	if e == nil {
		return
	}
	f(e)
	switch x := e.(type) {
	case *SUnary:
		walkSpec(x.X, f)
	case *SBinary:
		walkSpec(x.X, f)
		walkSpec(x.Y, f)
	case *SField:
		walkSpec(x.X, f)
	case *SIndex:
		walkSpec(x.X, f)
		walkSpec(x.I, f)
	case *SSlice:
		walkSpec(x.X, f)
		walkSpec(x.Lo, f)
		walkSpec(x.Hi, f)
	case *SCall:
		for _, a := range x.Args {
			walkSpec(a, f)
		}
	case *SOld:
		walkSpec(x.X, f)
	case *SQuant:
		walkSpec(x.Body, f)
	case *SIte:
		walkSpec(x.C, f)
		walkSpec(x.A, f)
		walkSpec(x.B, f)
	}
}

func max0(i int) int {
	if i < 0 {
		return 0
	}
	return i
}
