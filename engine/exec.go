package main

// Symbolic execution of go/ssa (NaiveForm) function bodies into verification
// conditions.  Loops are cut at their headers (invariants), calls use the
// callee's contract (or are inlined when small and loop-free), every implicit
// panic site becomes an obligation.

import (
	"fmt"
	"go/constant"
	"go/token"
	"go/types"
	"math/big"
	"sort"
	"strings"

	"golang.org/x/tools/go/ssa"
)

type Obligation struct {
	Name   string
	Kind   string // post pre inv-entry inv-preserve decreases bounds nil div overflow panic frame lemma datainv cover
	Props  []string
	Func   string
	Pos    string
	NDefs  int
	NDecls int
	Goal   string // full formula: (=> reach goal)
	Text   string
	Clause string
	ctx    *Ctx
	// results
	Status string // unsat (proved) | sat | unknown | timeout | error
	Solver string
	Secs   float64
	Model  string
	Output string
	ExpectSat bool // cover obligations
	Vars   map[string]string // parameter name -> SMT term (for replay)
	fn     *ssa.Function
	fc     *FuncContract
	clause *Clause
	Cases  []string // edge conditions of the last control-flow join: the proof may be split along them
}

type edge struct {
	cond string
	st   *State
}

type retInfo struct {
	cond string
	st   *State
	vals []Val
	pos  token.Pos
}

type deferred struct {
	call *ssa.Defer
	cond string
	args []Val
	fn   Val
}

type Frame struct {
	c       *Ctx
	fn      *ssa.Function
	fc      *FuncContract
	vals    map[ssa.Value]Val
	in      map[*ssa.BasicBlock]map[*ssa.BasicBlock]edge
	rets    []retInfo
	entrySt *State // state at function entry (for old())
	params  map[string]Val
	depth   int
	top     bool
	hv      map[*ssa.BasicBlock]map[string]bool // loop header -> havoc set (cell:<name>#<idx>, heap name)
	hvChanged bool
	loopOrd map[*ssa.BasicBlock]int
	defers  []deferred
	curBlock *ssa.BasicBlock
	reach   string
	st      *State
	oblSeq  map[string]int
	allocIdx map[*ssa.Alloc]int
	headerSt map[*ssa.BasicBlock]*State
	caller  *Frame
	curEnv  *SpecEnv
	curPos  token.Pos
	curClause *Clause
	caseConds []string
	loopPre map[*ssa.BasicBlock]*State
	loopLvs map[*ssa.BasicBlock][]lval
	fspec     *frameSpec
	loopSpecs map[*ssa.BasicBlock]*frameSpec
	loopBody  map[*ssa.BasicBlock]map[*ssa.BasicBlock]bool
}

func (f *Frame) pos(p token.Pos) string {
	if !p.IsValid() {
		p = f.fn.Pos()
	}
	ps := f.fn.Prog.Fset.Position(p)
	return fmt.Sprintf("%s:%d", strings.TrimPrefix(ps.Filename, repoDir+"/"), ps.Line)
}

func (f *Frame) topFrame() *Frame {
	t := f
	for t.caller != nil {
		t = t.caller
	}
	return t
}

// oblige records a proof obligation reach => goal.
func (f *Frame) oblige(kind, label, goal string, pos token.Pos, props []string, text string) {
	c := f.c
	if c.dry {
		return
	}
	trivial := goal == "true"
	tf := f.topFrame()
	base := kind
	if label != "" {
		base = kind + ":" + label
	}
	if f != tf {
		base = base + "@" + f.fn.Name()
	}
	tf.oblSeq[base]++
	name := fmt.Sprintf("%s.%s#%d", tf.c.fnName, base, tf.oblSeq[base])
	ps := append([]string{}, props...)
	if len(ps) == 0 && tf.fc != nil {
		ps = append(ps, tf.fc.Props...)
	}
	o := &Obligation{Name: name, Kind: kind, Props: ps, Func: tf.c.fnName, Pos: f.pos(pos),
		NDefs: len(c.decls), Goal: implies(f.reach, goal), Text: text, ctx: c, fn: tf.fn, fc: tf.fc, clause: f.curClause, Cases: f.caseConds}
	if trivial {
		// the goal simplified to true syntactically while it was being built
		o.Status, o.Solver = "unsat", "syntactic"
	}
	c.obls = append(c.obls, o)
	// known finding with a witness region: also prove the obligation outside that region,
	// so that a different failure of the same obligation is still reported
	if kf := c.eng.known[name]; kf != nil && kf.Witness != "" {
		env := f.curEnv
		if env == nil {
			env = f.specEnv(f.st, f.entrySt, true)
		}
		we, err := parseSpecExpr(kf.Witness)
		if err != nil {
			panic(contractErr("KNOWN_FINDINGS witness for " + name + ": " + err.Error()))
		}
		w := env.evalBool(we)
		n := &Obligation{Name: name + "|outside-known-finding", Kind: "narrowed", Props: ps, Func: o.Func, Pos: o.Pos,
			NDefs: len(c.decls), Goal: implies(f.reach, implies(not(w), goal)), Text: text + "  [outside the known-finding region: " + kf.Witness + "]", ctx: c}
		c.obls = append(c.obls, n)
	}
}

func (e *Engine) newFrame(c *Ctx, fn *ssa.Function, fc *FuncContract) *Frame {
	return &Frame{c: c, fn: fn, fc: fc, vals: map[ssa.Value]Val{}, in: map[*ssa.BasicBlock]map[*ssa.BasicBlock]edge{},
		params: map[string]Val{}, hv: map[*ssa.BasicBlock]map[string]bool{}, oblSeq: map[string]int{},
		allocIdx: map[*ssa.Alloc]int{}, headerSt: map[*ssa.BasicBlock]*State{}, loopPre: map[*ssa.BasicBlock]*State{}, loopLvs: map[*ssa.BasicBlock][]lval{}, loopSpecs: map[*ssa.BasicBlock]*frameSpec{}}
}

// ---------- CFG helpers ----------

func isBackEdge(from, to *ssa.BasicBlock) bool { return to.Dominates(from) }

func topoOrder(fn *ssa.Function) []*ssa.BasicBlock {
	// reverse postorder ignoring back-edges
	seen := map[*ssa.BasicBlock]bool{}
	var post []*ssa.BasicBlock
	var dfs func(b *ssa.BasicBlock)
	dfs = func(b *ssa.BasicBlock) {
		seen[b] = true
		for _, s := range b.Succs {
			if !seen[s] && !isBackEdge(b, s) {
				dfs(s)
			}
		}
		post = append(post, b)
	}
	dfs(fn.Blocks[0])
	if fn.Recover != nil && !seen[fn.Recover] {
		// recover block: not executed
	}
	for i, j := 0, len(post)-1; i < j; i, j = i+1, j-1 {
		post[i], post[j] = post[j], post[i]
	}
	return post
}

func loopHeaders(fn *ssa.Function) []*ssa.BasicBlock {
	hs := map[*ssa.BasicBlock]bool{}
	for _, b := range fn.Blocks {
		for _, s := range b.Succs {
			if isBackEdge(b, s) {
				hs[s] = true
			}
		}
	}
	var out []*ssa.BasicBlock
	for h := range hs {
		out = append(out, h)
	}
	// source order: by position of the first instruction with a valid position, else block index
	sort.Slice(out, func(i, j int) bool {
		pi, pj := blockPos(out[i]), blockPos(out[j])
		if pi != pj {
			return pi < pj
		}
		return out[i].Index < out[j].Index
	})
	return out
}

func blockPos(b *ssa.BasicBlock) token.Pos {
	for _, in := range b.Instrs {
		if p := in.Pos(); p.IsValid() {
			return p
		}
		if d, ok := in.(*ssa.DebugRef); ok && d.Expr != nil {
			return d.Expr.Pos()
		}
	}
	return token.NoPos
}

// ---------- running a function body ----------

// run executes the body from the given entry state; returns return-site infos.
func (f *Frame) run(entry *State, reach string) {
	fn := f.fn
	if len(fn.Blocks) == 0 {
		panic(unsupported("function without body: " + fn.String()))
	}
	f.loopOrd = map[*ssa.BasicBlock]int{}
	for i, h := range loopHeaders(fn) {
		f.loopOrd[h] = i
	}
	order := topoOrder(fn)
	f.in[fn.Blocks[0]] = map[*ssa.BasicBlock]edge{nil: {reach, entry}}
	for _, b := range order {
		ins := f.in[b]
		if len(ins) == 0 {
			continue // unreachable
		}
		// merge forward edges (deterministic order)
		var preds []*ssa.BasicBlock
		for p := range ins {
			preds = append(preds, p)
		}
		sort.Slice(preds, func(i, j int) bool {
			if preds[i] == nil {
				return true
			}
			if preds[j] == nil {
				return false
			}
			return preds[i].Index < preds[j].Index
		})
		var es []edge
		for _, p := range preds {
			es = append(es, ins[p])
		}
		st, rc := f.c.merge(es)
		f.st, f.reach, f.curBlock = st, rc, b
		if len(es) > 1 && len(es) <= 6 {
			f.caseConds = nil
			for _, e := range es {
				f.caseConds = append(f.caseConds, e.cond)
			}
		}
		if _, isHeader := f.loopOrd[b]; isHeader {
			f.enterLoop(b)
		}
		f.execBlock(b)
	}
}

// merge joins edge states.
func (c *Ctx) merge(es []edge) (*State, string) {
	if len(es) == 1 {
		return es[0].st.clone(), es[0].cond
	}
	var conds []string
	for _, e := range es {
		conds = append(conds, e.cond)
	}
	reach := or(simplifyDisj(conds)...)
	if len(reach) > 80 {
		reach = c.define("reach", reach, "Bool")
	}
	out := newState()
	// cells: only those present on all edges
	for _, a := range es[0].st.order {
		t0, ok0 := es[0].st.cells[a]
		if !ok0 {
			continue
		}
		// structural pointer cells: equal on all edges, or guarded alternatives
		{
			anyPtr, allPtr, agree := false, true, true
			first, ok0p := es[0].st.ptrs[a]
			for _, e := range es {
				q, ok2 := e.st.ptrs[a]
				if ok2 {
					anyPtr = true
				} else {
					allPtr = false
				}
				if !ok0p || !ok2 || q.P == nil || first.P == nil || q.P.String() != first.P.String() || q.P.View != first.P.View || len(q.Alts) > 0 || len(first.Alts) > 0 {
					agree = false
				}
			}
			switch {
			case anyPtr && allPtr && agree:
				out.ptrs[a] = first
			case anyPtr && allPtr && c.sameRawRoot(es, a):
				// the same memory with different indices (e.g. `if c == '-' { sp++ }`):
				// one pointer whose index is the if-then-else of the edge indices
				q0 := es[len(es)-1].st.ptrs[a]
				idx := q0.P.Steps[len(q0.P.Steps)-1].Idx
				for k := len(es) - 2; k >= 0; k-- {
					qk := es[k].st.ptrs[a]
					idx = ite(es[k].cond, qk.P.Steps[len(qk.P.Steps)-1].Idx, idx)
				}
				np := *q0.P
				np.Steps = append([]Step{}, q0.P.Steps...)
				np.Steps[len(np.Steps)-1].Idx = c.bind("pidx", idx, c.idxSort())
				out.ptrs[a] = Val{T: q0.T, P: &np}
			case anyPtr && allPtr:
				var as []PAlt
				for _, e := range es {
					q := e.st.ptrs[a]
					if len(q.Alts) > 0 {
						for _, qa := range q.Alts {
							as = append(as, PAlt{and(e.cond, qa.Cond), qa.P})
						}
					} else {
						as = append(as, PAlt{e.cond, q.P})
					}
				}
				out.ptrs[a] = Val{T: first.T, Alts: as}
			case anyPtr:
				// some edges hold an interior pointer, others a plain reference to a heap
				// object: a reference r is the path "heap object r", so alternatives work
				var as []PAlt
				okAll := true
				pt, isPtr := a.Type().(*types.Pointer).Elem().Underlying().(*types.Pointer)
				for _, e := range es {
					if q, ok2 := e.st.ptrs[a]; ok2 {
						if len(q.Alts) > 0 {
							for _, qa := range q.Alts {
								as = append(as, PAlt{and(e.cond, qa.Cond), qa.P})
							}
						} else if q.P != nil {
							as = append(as, PAlt{e.cond, q.P})
						} else {
							okAll = false
						}
						continue
					}
					t, ok3 := e.st.cells[a]
					if !ok3 || !isPtr {
						okAll = false
						continue
					}
					as = append(as, PAlt{e.cond, &Path{Kind: rootHeap, T: pt.Elem(), Ref: t}})
				}
				if okAll && len(as) > 0 {
					out.ptrs[a] = Val{T: a.Type().(*types.Pointer).Elem(), Alts: as}
				} else {
					out.poison[a] = true
				}
			}
		}
		for _, e := range es {
			if e.st.poison[a] {
				out.poison[a] = true
				delete(out.ptrs, a)
			}
		}
		same, all := true, true
		for _, e := range es[1:] {
			t, ok := e.st.cells[a]
			if !ok {
				all = false
				break
			}
			if t != t0 {
				same = false
			}
		}
		if !all {
			continue
		}
		if same {
			out.cells[a] = t0
			continue
		}
		var cts []string
		for _, e := range es {
			cts = append(cts, e.st.cells[a])
		}
		out.cells[a] = c.mergeTerm("m."+a.Comment, c.sortOf(a.Type().(*types.Pointer).Elem()), conds, cts)
	}
	for _, a := range es[0].st.order {
		if _, ok := out.cells[a]; ok {
			out.order = append(out.order, a)
			continue
		}
		if r, ok := es[0].st.hrefs[a]; ok {
			all := true
			for _, e := range es[1:] {
				if e.st.hrefs[a] != r {
					all = false
				}
			}
			if all {
				out.hrefs[a] = r
				out.order = append(out.order, a)
			}
		}
	}
	// havoc epochs
	out.hid = es[0].st.hid
	sameHid := true
	for _, e := range es[1:] {
		if e.st.hid != out.hid {
			sameHid = false
		}
	}
	if !sameHid {
		c.nhavoc++
		out.hid = c.nhavoc
		var hm []hmEntry
		for _, e := range es {
			hm = append(hm, hmEntry{e.cond, e.st.hid})
		}
		c.hmerge[out.hid] = hm
	}
	names := map[string]bool{}
	for _, e := range es {
		for n := range e.st.heaps {
			names[n] = true
		}
	}
	for _, n := range sortedKeys(names) {
		var terms []string
		same := true
		srt := c.heapSorts[n]
		for _, e := range es {
			t, ok := e.st.heaps[n]
			if !ok {
				t = c.defaultHeap(e.st.hid, n, srt)
			}
			if len(terms) > 0 && t != terms[0] {
				same = false
			}
			terms = append(terms, t)
		}
		if same {
			out.heaps[n] = terms[0]
			continue
		}
		out.heaps[n] = c.mergeTerm("m."+n, srt, conds, terms)
	}
	return out, reach
}

func (c *Ctx) heapSort(name string) string {
	s, ok := c.heapSorts[name]
	if !ok {
		panic("unknown heap " + name)
	}
	return s
}

func (f *Frame) addEdge(from, to *ssa.BasicBlock, cond string) {
	if isBackEdge(from, to) {
		f.closeLoop(to, cond)
		return
	}
	if f.in[to] == nil {
		f.in[to] = map[*ssa.BasicBlock]edge{}
	}
	f.in[to][from] = edge{cond, f.st.clone()}
}

// ---------- loops ----------

func (f *Frame) loopSpec(h *ssa.BasicBlock) *LoopSpec {
	if f.fc == nil {
		return nil
	}
	return f.fc.Loops[f.loopOrd[h]]
}

func (f *Frame) cellKey(a *ssa.Alloc) string {
	return fmt.Sprintf("cell:%p", a)
}

func (f *Frame) enterLoop(h *ssa.BasicBlock) {
	c := f.c
	ls := f.loopSpec(h)
	ord := f.loopOrd[h]
	if ls == nil || len(ls.Inv) == 0 {
		if !f.top {
			panic(unsupported(fmt.Sprintf("loop in inlined callee %s", f.fn.Name())))
		}
		panic(contractErr(fmt.Sprintf("%s: loop %d (at %s) has no invariant", f.c.fnName, ord, f.pos(blockPos(h)))))
	}
	// 1. invariant holds on entry
	env := f.specEnv(f.st, f.entrySt, true)
	env.pre = f.st
	for i, inv := range ls.Inv {
		parts := c.eng.splitConjDeep(f.fc.Pkg, inv.Expr, 0)
		for j, pe := range parts {
			label, text := fmt.Sprintf("loop%d.%d", ord, i), inv.Text
			if len(parts) > 1 {
				label, text = fmt.Sprintf("loop%d.%d.%d", ord, i, j), pe.String()
			}
			f.oblige("inv-entry", label, env.evalBool(pe), blockPos(h), inv.Props, text)
		}
	}
	var dec0 string
	// 2. havoc what the body modifies
	hv := f.hv[h]
	pre := f.st.clone()
	for a := range f.st.cells {
		if hv[f.cellKey(a)] {
			t := a.Type().(*types.Pointer).Elem()
			n := c.fresh("L"+fmt.Sprint(ord)+"."+a.Comment, c.sortOf(t))
			c.assume(implies(f.reach, c.typeInv(n, t)))
			f.st.cells[a] = n
			if pv, ok := f.st.ptrs[a]; ok {
				if pv.P != nil && len(pv.P.Steps) > 0 && pv.P.Steps[len(pv.P.Steps)-1].IsIdx && len(pv.Alts) == 0 && !hv[f.cellKey(a)+":shape"] {
					// a raw pointer advanced by the loop: same object, unknown position
					q := *pv.P
					q.Steps = append([]Step{}, pv.P.Steps...)
					q.Steps[len(q.Steps)-1].Idx = c.fresh("L"+fmt.Sprint(ord)+"."+a.Comment+".idx", c.idxSort())
					f.st.ptrs[a] = Val{T: pv.T, P: &q}
				} else {
					delete(f.st.ptrs, a)
					f.st.poison[a] = true
				}
			}
		}
	}
	if hv["*"] {
		f.havocAll()
	}
	// loop-level modifies: heaps named there change only at the listed locations
	covered := map[string]bool{}
	var lvs []lval
	if len(ls.Modifies) > 0 {
		penv := f.specEnv(pre, f.entrySt, true)
		for _, m := range ls.Modifies {
			lv := penv.lvalue(m)
			if len(lv.heapAll) > 0 {
				lvs = append(lvs, lv)
				for _, n := range lv.heapAll {
					covered[n] = true
				}
				continue
			}
			if lv.path == nil {
				continue
			}
			n := c.heapNameOfPath(lv.path)
			if n == "" || strings.HasSuffix(n, ".*") {
				panic(contractErr("loop modifies: unsupported target " + m.String()))
			}
			covered[n] = true
			lvs = append(lvs, lv)
		}
	}
	for _, n := range sortedKeys(hv) {
		if strings.HasPrefix(n, "cell:") || n == "*" || covered[n] {
			continue
		}
		srt := c.heapSort(n)
		prev := c.heap(f.st, n, srt)
		f.st.heaps[n] = c.fresh("L"+fmt.Sprint(ord)+"."+n, srt)
		if n == nowHeap {
			c.assume(fmt.Sprintf("(>= %s %s)", f.st.heaps[n], prev))
		}
	}
	for _, lv := range lvs {
		f.havocLval(lv)
	}
	// objects allocated while the loop runs may hold anything: only objects that existed at loop entry are framed
	nowPre := c.now(pre)
	for _, n := range sortedKeys(covered) {
		srt := c.heapSorts[n]
		if !strings.HasPrefix(srt, "(Array Int ") || strings.HasPrefix(n, "$") || strings.HasPrefix(n, "G_") {
			continue
		}
		mod := c.heap(f.st, n, srt)
		hh := c.fresh("L"+fmt.Sprint(ord)+"."+n, srt)
		c.assume(fmt.Sprintf("(forall ((r!l Int)) (! (=> (< (born r!l) %s) (= (select %s r!l) (select %s r!l))) :pattern ((select %s r!l))))", nowPre, hh, mod, hh))
		f.st.heaps[n] = hh
	}
	f.loopPre[h] = pre
	f.loopLvs[h] = lvs
	if len(ls.Modifies) > 0 {
		f.loopSpecs[h] = f.buildFrameSpec(f.specEnv(pre, f.entrySt, true), ls.Modifies, nowPre)
	}
	f.headerSt[h] = f.st.clone()
	// 3. assume invariant
	env = f.specEnv(f.st, f.entrySt, true)
	env.pre = pre
	for _, inv := range ls.Inv {
		c.assume(implies(f.reach, env.evalBool(inv.Expr)))
	}
	if ls.Dec != nil {
		dec0 = env.eval(ls.Dec.Expr, nil).S
		f.vals[loopDecKey{h}] = Val{S: dec0}
	}
}

type loopDecKey struct{ h *ssa.BasicBlock }

func (loopDecKey) Name() string                  { return "dec" }
func (loopDecKey) String() string                { return "dec" }
func (loopDecKey) Type() types.Type              { return nil }
func (loopDecKey) Parent() *ssa.Function         { return nil }
func (loopDecKey) Referrers() *[]ssa.Instruction { return nil }
func (loopDecKey) Pos() token.Pos                { return token.NoPos }

func (f *Frame) closeLoop(h *ssa.BasicBlock, cond string) {
	c := f.c
	ls := f.loopSpec(h)
	ord := f.loopOrd[h]
	// record modifications relative to the header state (fixpoint over dry runs)
	hs := f.headerSt[h]
	if hs != nil {
		set := f.hv[h]
		if set == nil {
			set = map[string]bool{}
			f.hv[h] = set
		}
		for a, t := range hs.cells {
			t2, ok := f.st.cells[a]
			changed := ok && t2 != t
			p1, ok1 := hs.ptrs[a]
			p2, ok2 := f.st.ptrs[a]
			if ok1 != ok2 || (ok1 && (p1.P == nil || p2.P == nil || p1.P.String() != p2.P.String())) {
				changed = true
				// only "same object, other position" may be summarised by a fresh index at the loop head
				if !(ok1 && ok2 && p1.P != nil && p2.P != nil && sameShape(p1.P, p2.P)) && !set[f.cellKey(a)+":shape"] {
					set[f.cellKey(a)+":shape"] = true
					f.hvChanged = true
				}
			}
			if changed && !set[f.cellKey(a)] {
				set[f.cellKey(a)] = true
				f.hvChanged = true
			}
		}
		if hs.hid != f.st.hid && !set["*"] {
			set["*"] = true
			f.hvChanged = true
		}
		names := map[string]bool{}
		for n := range hs.heaps {
			names[n] = true
		}
		for n := range f.st.heaps {
			names[n] = true
		}
		for n := range names {
			t1, ok1 := hs.heaps[n]
			t2, ok2 := f.st.heaps[n]
			if !ok1 {
				t1 = c.defaultHeap(hs.hid, n, c.heapSorts[n])
			}
			if !ok2 {
				t2 = c.defaultHeap(f.st.hid, n, c.heapSorts[n])
			}
			ok1, ok2 = true, true
			if (ok1 != ok2 || t1 != t2) && !set[n] {
				set[n] = true
				f.hvChanged = true
			}
		}
	}
	if ls == nil {
		return
	}
	saveReach := f.reach
	f.reach = cond
	env := f.specEnv(f.st, f.entrySt, true)
	env.pre = f.loopPre[h]
	if env.pre == nil {
		env.pre = f.headerSt[h]
	}
	env.prev = f.headerSt[h]
	// asserts: intermediate facts (typically instances of axioms) proved here and then available below
	for i, as := range ls.Asserts {
		g := env.evalBool(as.Expr)
		f.oblige("assert", fmt.Sprintf("loop%d.%d", ord, i), g, blockPos(h), as.Props, as.Text)
		c.assume(implies(f.reach, g))
	}
	for i, inv := range ls.Inv {
		parts := c.eng.splitConjDeep(f.fc.Pkg, inv.Expr, 0)
		for j, pe := range parts {
			label, text := fmt.Sprintf("loop%d.%d", ord, i), inv.Text
			if len(parts) > 1 {
				label, text = fmt.Sprintf("loop%d.%d.%d", ord, i, j), pe.String()
			}
			f.oblige("inv-preserve", label, env.evalBool(pe), blockPos(h), inv.Props, text)
		}
	}
	if ls.Dec != nil {
		d1 := env.eval(ls.Dec.Expr, nil)
		d0 := f.vals[loopDecKey{h}].S
		var g string
		if c.mode == "bv" {
			g = fmt.Sprintf("(bvult %s %s)", d1.S, d0)
		} else {
			g = fmt.Sprintf("(and (<= 0 %s) (< %s %s))", d0, d1.S, d0)
		}
		f.oblige("decreases", fmt.Sprintf("loop%d", ord), g, blockPos(h), []string{"C07"}, ls.Dec.Text)
	} else if !c.dry {
		c.note(fmt.Sprintf("loop %d of %s has no decreases clause: termination not proved", ord, c.fnName))
	}
	f.reach = saveReach
}

// ---------- blocks and instructions ----------

type contractErr string

func (e contractErr) Error() string { return "contract error: " + string(e) }

func (f *Frame) execBlock(b *ssa.BasicBlock) {
	for _, in := range b.Instrs {
		f.execInstr(in)
	}
}

func (f *Frame) get(v ssa.Value) Val {
	switch x := v.(type) {
	case *ssa.Const:
		return f.constVal(x)
	case *ssa.Function:
		return Val{T: x.Type(), Fn: x, S: f.c.funcRef(x)}
	case *ssa.Global:
		return Val{T: x.Type(), P: &Path{Kind: rootGlobal, Glob: x}}
	case *ssa.Builtin:
		return Val{T: x.Type()}
	}
	r, ok := f.vals[v]
	if !ok {
		panic(unsupported(fmt.Sprintf("value %s (%T) not available in %s", v.Name(), v, f.fn.Name())))
	}
	return r
}

func (c *Ctx) funcRef(fn *ssa.Function) string {
	name := "fn." + sanitize(fn.String())
	c.decl("fnref:"+name, fmt.Sprintf("(declare-const %s Int)", name))
	c.decl("fnref-nz:"+name, fmt.Sprintf("(assert (> %s 0))", name))
	return name
}

func (f *Frame) constVal(k *ssa.Const) Val {
	c := f.c
	t := k.Type()
	if k.Value == nil {
		return Val{T: t, S: c.zero(t)}
	}
	switch {
	case isBool(t):
		if constant.BoolVal(k.Value) {
			return Val{T: t, S: "true"}
		}
		return Val{T: t, S: "false"}
	case isInt(t):
		v, _ := new(big.Int).SetString(k.Value.ExactString(), 10)
		if v == nil {
			// constant may be a float-valued constant with integer value
			iv := constant.ToInt(k.Value)
			v, _ = new(big.Int).SetString(iv.ExactString(), 10)
		}
		return Val{T: t, S: c.intLit(v, t)}
	case isString(t):
		return Val{T: t, S: c.strConst(constant.StringVal(k.Value))}
	case isFloat(t):
		fv, _ := constant.Float64Val(k.Value)
		return Val{T: t, S: c.floatLit(fv, t)}
	}
	panic(unsupported("constant of type " + t.String()))
}

func (c *Ctx) floatLit(v float64, t types.Type) string {
	eb, sb := 11, 53
	if b, ok := t.Underlying().(*types.Basic); ok && b.Kind() == types.Float32 {
		eb, sb = 8, 24
	}
	if v == 0 {
		return fmt.Sprintf("(_ +zero %d %d)", eb, sb)
	}
	r := new(big.Rat).SetFloat64(v)
	s := fmt.Sprintf("(/ %s.0 %s.0)", new(big.Int).Abs(r.Num()).String(), r.Denom().String())
	if v < 0 {
		s = "(- " + s + ")"
	}
	return fmt.Sprintf("((_ to_fp %d %d) RNE %s)", eb, sb, s)
}

func (f *Frame) set(v ssa.Value, x Val) {
	if x.T == nil {
		x.T = v.Type()
	}
	f.vals[v] = x
}

// ptrPath turns a pointer value into a path.
func (f *Frame) ptrPath(v Val, pos token.Pos, what string) *Path {
	if v.P != nil {
		return v.P
	}
	if len(v.Alts) > 0 || v.S == "" {
		panic(unsupported("dereference (" + what + ") of a pointer with several possible shapes"))
	}
	pt, ok := v.T.Underlying().(*types.Pointer)
	if !ok {
		panic(unsupported("dereference of non-pointer " + v.T.String()))
	}
	// nil check
	f.oblige("nil", what, fmt.Sprintf("(not (= %s 0))", v.S), pos, nil, "nil pointer dereference")
	return &Path{Kind: rootHeap, T: pt.Elem(), Ref: v.S}
}

func (f *Frame) loadVal(p *Path, t types.Type) Val {
	c := f.c
	if p.View != nil && len(p.Steps) == 0 {
		panic(unsupported("load of whole reinterpreted object"))
	}
	if vf, ok := f.viewField(p); ok {
		return vf.load()
	}
	f.checkRaw(p, "load")
	s := c.load(f.st, p)
	s = c.bind("ld", s, c.sortOf(t))
	// range facts for loaded integers (heap contents are well-typed)
	if isInt(t) && c.mode == "int" {
		if p.Kind != rootCell {
			c.assume(c.inRange(s, t))
		}
	} else if p.Kind != rootCell {
		if inv := c.typeInv(s, t); inv != "true" {
			c.assume(inv)
		}
		// references found in memory denote nil, an object that existed at entry, or one allocated by this call
		var ref string
		switch t.Underlying().(type) {
		case *types.Pointer, *types.Map:
			ref = s
		case *types.Slice:
			ref = fmt.Sprintf("(sbase %s)", s)
		}
		if ref != "" {
			c.assume(c.bornBefore(f.st, ref))
		}
	}
	return Val{T: t, S: s}
}

// checkRaw: a dereference through an index computed by pointer arithmetic must
// stay inside the object the pointer was derived from.
func (f *Frame) checkRaw(p *Path, what string) {
	c := f.c
	t := c.rootType(p)
	for i, s := range p.Steps {
		switch u := t.Underlying().(type) {
		case *types.Struct:
			t = u.Field(s.Field).Type()
		case *types.Array:
			if s.Raw {
				if i == 0 && (p.Kind == rootArr || p.Kind == rootStrArr) {
					if p.Lo == "" || p.Hi == "" {
						f.oblige("bounds", "rawptr", "false", f.curPos, nil, "dereference of a raw pointer whose valid range is unknown")
					} else {
						f.oblige("bounds", "rawptr", and(c.idxLe(p.Lo, s.Idx), c.idxLt(s.Idx, p.Hi)), f.curPos, nil, "raw pointer "+what+" outside the memory it was derived from")
					}
				} else {
					f.boundsOblige("rawptr", s.Idx, c.idxLit(u.Len()), f.curPos, "raw pointer "+what+" outside the array it was derived from")
				}
			}
			t = u.Elem()
		}
	}
}

func (f *Frame) storeVal(p *Path, v Val) {
	if vf, ok := f.viewField(p); ok {
		vf.store(v)
		return
	}
	f.checkRaw(p, "store")
	f.frameWritePath(p, f.curPos)
	if len(v.Alts) > 0 {
		if p.Kind == rootCell && len(p.Steps) == 0 {
			f.st.ptrs[p.Cell] = v
			f.st.cells[p.Cell] = "0"
			return
		}
		panic(unsupported("storing a multi-alternative pointer into memory"))
	}
	if v.P != nil {
		// storing a structural pointer: only pointers to whole heap objects can be materialised
		if v.P.Kind == rootHeap && len(v.P.Steps) == 0 {
			f.c.store(f.st, p, v.P.Ref)
			return
		}
		// local cell holding a structural pointer: tracked in the state
		if p.Kind == rootCell && len(p.Steps) == 0 {
			f.st.ptrs[p.Cell] = v
			f.st.cells[p.Cell] = "0"
			return
		}
		panic(unsupported("storing interior pointer " + v.P.String() + " into memory"))
	}
	if p.Kind == rootCell && len(p.Steps) == 0 {
		delete(f.st.ptrs, p.Cell)
		delete(f.st.poison, p.Cell)
	}
	f.c.store(f.st, p, v.S)
}

func (f *Frame) execInstr(in ssa.Instruction) {
	c := f.c
	if p := in.Pos(); p.IsValid() {
		f.curPos = p
	}
	switch x := in.(type) {
	case *ssa.DebugRef:
		return
	case *ssa.Alloc:
		et := x.Type().(*types.Pointer).Elem()
		if x.Heap {
			// escaping variable or allocation: an object with identity on the heap
			// heap object with identity
			r := c.fresh("new", "Int")
			f.assumeFresh(r)
			p := &Path{Kind: rootHeap, T: et, Ref: r}
			c.store(f.st, p, c.zero(et))
			f.set(x, Val{T: x.Type(), S: r})
			if x.Comment != "new" && x.Comment != "complit" && x.Comment != "slicelit" && x.Comment != "makeslice" && x.Comment != "" {
				// a named local variable that escapes: contracts can still refer to it by name
				f.st.hrefs[x] = r
				f.st.order = append(f.st.order, x)
			}
			return
		}
		f.st.cells[x] = c.zero(et)
		f.st.order = append(f.st.order, x)
		f.set(x, Val{T: x.Type(), P: &Path{Kind: rootCell, Cell: x}})
	case *ssa.Store:
		addr := f.get(x.Addr)
		v := f.get(x.Val)
		if len(addr.Alts) > 0 {
			f.storeAlts(f.derefAlts(addr, x.Pos(), "store"), v)
			return
		}
		p := f.ptrPath(addr, x.Pos(), "store")
		f.storeVal(p, v)
	case *ssa.UnOp:
		f.execUnOp(x)
	case *ssa.BinOp:
		f.execBinOp(x)
	case *ssa.Phi:
		f.execPhi(x)
	case *ssa.FieldAddr:
		base := f.get(x.X)
		if len(base.Alts) > 0 {
			var out []PAlt
			for _, a := range f.derefAlts(base, x.Pos(), "fieldaddr") {
				out = append(out, PAlt{a.Cond, a.P.extend(Step{Field: x.Field})})
			}
			f.set(x, mkAltsVal(x.Type(), out))
			return
		}
		p := f.ptrPath(base, x.Pos(), "fieldaddr")
		if p.View != nil {
			q := *p
			q.Steps = append(append([]Step{}, p.Steps...), Step{Field: x.Field})
			f.set(x, Val{T: x.Type(), P: &q})
			return
		}
		f.set(x, Val{T: x.Type(), P: p.extend(Step{Field: x.Field})})
	case *ssa.Field:
		sv := f.get(x.X)
		st := sv.T.Underlying().(*types.Struct)
		t := st.Field(x.Field).Type()
		if isGoSliceLike(sv.T) {
			switch x.Field {
			case 0:
				off := fmt.Sprintf("(xoff %s)", sv.S)
				f.set(x, Val{T: t, P: &Path{Kind: rootArr, T: types.Typ[types.Uint8], Ref: fmt.Sprintf("(sbase %s)", sv.S), Steps: []Step{{IsIdx: true, Idx: off, Raw: true}}, Lo: off, Hi: c.idxAdd(off, fmt.Sprintf("(xcap %s)", sv.S))}})
			case 1:
				f.set(x, Val{T: t, S: fmt.Sprintf("(xlen %s)", sv.S)})
			default:
				f.set(x, Val{T: t, S: fmt.Sprintf("(xcap %s)", sv.S)})
			}
			return
		}
		if isGoStringLike(sv.T) {
			if x.Field == 1 {
				f.set(x, Val{T: t, S: fmt.Sprintf("(slen %s)", sv.S)})
				return
			}
			off := fmt.Sprintf("(soff %s)", sv.S)
			f.set(x, Val{T: t, P: &Path{Kind: rootStrArr, Ref: fmt.Sprintf("(sarr %s)", sv.S), Steps: []Step{{IsIdx: true, Idx: off, Raw: true}}, Lo: off, Hi: c.idxAdd(off, fmt.Sprintf("(slen %s)", sv.S))}})
			return
		}
		f.set(x, Val{T: t, S: fmt.Sprintf("(%s %s)", c.fieldSel(c.sortOf(sv.T), st, x.Field), sv.S)})
	case *ssa.IndexAddr:
		f.execIndexAddr(x)
	case *ssa.Index:
		f.execIndex(x)
	case *ssa.Slice:
		f.execSlice(x)
	case *ssa.Convert:
		f.execConvert(x)
	case *ssa.ChangeType:
		v := f.get(x.X)
		v.T = x.Type()
		f.set(x, v)
	case *ssa.MakeInterface:
		f.execMakeInterface(x)
	case *ssa.ChangeInterface:
		v := f.get(x.X)
		v.T = x.Type()
		f.set(x, v)
	case *ssa.TypeAssert:
		f.execTypeAssert(x)
	case *ssa.Extract:
		t := f.get(x.Tuple)
		if x.Index >= len(t.Tup) {
			panic(unsupported("extract from non-tuple"))
		}
		f.set(x, t.Tup[x.Index])
	case *ssa.Call:
		r := f.execCall(x.Common(), x.Pos(), x)
		f.set(x, r)
	case *ssa.Defer:
		d := deferred{call: x, cond: f.reach}
		d.fn, d.args = f.callOperands(x.Common())
		f.defers = append(f.defers, d)
	case *ssa.RunDefers:
		for i := len(f.defers) - 1; i >= 0; i-- {
			d := f.defers[i]
			if d.cond != f.topFrameReach() && d.cond != f.reach {
				// conditional defer: execute under its guard
				f.execGuarded(d)
				continue
			}
			f.execCallWith(d.call.Common(), d.call.Pos(), d.fn, d.args)
		}
	case *ssa.Return:
		var vs []Val
		for _, r := range x.Results {
			vs = append(vs, f.get(r))
		}
		f.rets = append(f.rets, retInfo{f.reach, f.st.clone(), vs, x.Pos()})
	case *ssa.If:
		cv := f.get(x.Cond)
		b := f.curBlock
		cnd := c.bind("br", cv.S, "Bool")
		f.addEdge(b, b.Succs[0], and(f.reach, cnd))
		f.addEdge(b, b.Succs[1], and(f.reach, not(cnd)))
	case *ssa.Jump:
		f.addEdge(f.curBlock, f.curBlock.Succs[0], f.reach)
	case *ssa.Panic:
		f.execPanic(x)
	case *ssa.MakeSlice:
		f.execMakeSlice(x)
	case *ssa.MakeClosure:
		var b []Val
		for _, bv := range x.Bindings {
			b = append(b, f.get(bv))
		}
		f.set(x, Val{T: x.Type(), Cl: x, Fn: x.Fn.(*ssa.Function), Bnd: b, S: c.fresh("closure", "Int")})
	case *ssa.MakeMap:
		f.set(x, f.execMakeMap(x.Type()))
	case *ssa.Lookup:
		f.execLookup(x)
	case *ssa.MapUpdate:
		m := f.get(x.Map)
		f.oblige("nil", "mapupdate", fmt.Sprintf("(not (= %s 0))", m.S), x.Pos(), nil, "assignment to entry in nil map")
		if !f.execMapUpdate(m, f.get(x.Key), f.get(x.Value), x.Pos()) {
			c.note("map update abstracted (map contents not modelled for this key type)")
		}
	case *ssa.Range:
		f.set(x, Val{T: x.Type(), S: c.fresh("iter", "Int")})
	case *ssa.Next:
		f.execNext(x)
	case *ssa.SliceToArrayPointer:
		panic(unsupported("slice to array pointer"))
	case *ssa.Go, *ssa.Send, *ssa.Select, *ssa.MakeChan:
		panic(unsupported(fmt.Sprintf("concurrency instruction %T", in)))
	default:
		panic(unsupported(fmt.Sprintf("instruction %T", in)))
	}
}

func (f *Frame) topFrameReach() string { return f.reach }

func (f *Frame) execGuarded(d deferred) {
	// run the deferred call on a copy of the state under its guard and merge
	before := f.st.clone()
	saveReach := f.reach
	f.reach = and(saveReach, d.cond)
	f.execCallWith(d.call.Common(), d.call.Pos(), d.fn, d.args)
	after := f.st
	st, _ := f.c.merge([]edge{{and(saveReach, d.cond), after}, {and(saveReach, not(d.cond)), before}})
	f.st = st
	f.reach = saveReach
}

func (f *Frame) execPanic(x *ssa.Panic) {
	// explicit panic: allowed only under a panics_if condition of the contract
	tf := f.topFrame()
	goal := "false"
	text := "explicit panic reachable"
	if tf.fc != nil && len(tf.fc.Panics) > 0 && f == tf {
		env := f.specEnv(f.st, f.entrySt, false)
		var alts []string
		for _, p := range tf.fc.Panics {
			alts = append(alts, env.evalBool(p.Expr))
		}
		goal = or(alts...)
		text = "explicit panic only under panics_if"
	}
	f.oblige("panic", "", goal, x.Pos(), nil, text)
}

func (f *Frame) execUnOp(x *ssa.UnOp) {
	c := f.c
	v := f.get(x.X)
	switch x.Op {
	case token.MUL: // load
		// shadowed pointer cell?
		if v.P != nil && v.P.Kind == rootCell && len(v.P.Steps) == 0 {
			if sv, ok := f.st.ptrs[v.P.Cell]; ok {
				f.set(x, sv)
				return
			}
			if f.st.poison[v.P.Cell] {
				panic(unsupported("pointer variable " + v.P.Cell.Comment + " holds different interior pointers on different paths"))
			}
		}
		if len(v.Alts) > 0 {
			f.set(x, f.loadAlts(f.derefAlts(v, x.Pos(), "load"), x.Type()))
			return
		}
		p := f.ptrPath(v, x.Pos(), "load")
		if p.Kind == rootGlobal && len(p.Steps) == 0 {
			if _, isFunc := x.Type().Underlying().(*types.Signature); isFunc {
				if fn := c.eng.constFuncGlobal(p.Glob); fn != nil {
					c.note("call through package variable " + p.Glob.Name() + " resolved to " + fn.String() + " (the variable is assigned only by its initializer in the loaded program)")
					lv := f.loadVal(p, x.Type())
					lv.Fn = fn
					f.set(x, lv)
					return
				}
			}
		}
		f.set(x, f.loadVal(p, x.Type()))
	case token.NOT:
		f.set(x, Val{T: x.Type(), S: not(v.S)})
	case token.SUB:
		if isFloat(x.Type()) {
			f.set(x, Val{T: x.Type(), S: fmt.Sprintf("(fp.neg %s)", v.S)})
			return
		}
		if c.mode == "bv" {
			f.set(x, Val{T: x.Type(), S: fmt.Sprintf("(bvneg %s)", v.S)})
			return
		}
		r := fmt.Sprintf("(- %s)", v.S)
		if !c.wraps {
			f.oblige("overflow", "neg", c.inRange(r, x.Type()), x.Pos(), nil, "negation overflows")
		} else {
			r = c.wrapInt(r, x.Type())
		}
		f.set(x, Val{T: x.Type(), S: r})
	case token.XOR:
		if c.mode == "bv" {
			f.set(x, Val{T: x.Type(), S: fmt.Sprintf("(bvnot %s)", v.S)})
			return
		}
		_, signed, _ := intInfo(x.Type())
		if signed {
			f.set(x, Val{T: x.Type(), S: fmt.Sprintf("(- (- %s) 1)", v.S)})
		} else {
			_, hi, _ := typeRange(x.Type())
			f.set(x, Val{T: x.Type(), S: fmt.Sprintf("(- %s %s)", hi.String(), v.S)})
		}
	default:
		panic(unsupported("unary op " + x.Op.String()))
	}
}

func (f *Frame) execBinOp(x *ssa.BinOp) {
	c := f.c
	a, b := f.get(x.X), f.get(x.Y)
	op := x.Op.String()
	t := x.X.Type()
	switch x.Op {
	case token.EQL, token.NEQ, token.LSS, token.LEQ, token.GTR, token.GEQ:
		f.set(x, Val{T: x.Type(), S: f.compare(op, a, b, t, x.Pos())})
		return
	}
	if isString(t) && x.Op == token.ADD {
		f.set(x, f.strConcat(a, b))
		return
	}
	if isFloat(t) {
		m := map[string]string{"+": "fp.add RNE", "-": "fp.sub RNE", "*": "fp.mul RNE", "/": "fp.div RNE"}
		if m[op] == "" {
			panic(unsupported("float op " + op))
		}
		f.set(x, Val{T: x.Type(), S: fmt.Sprintf("(%s %s %s)", m[op], a.S, b.S)})
		return
	}
	if isBool(t) {
		switch x.Op {
		case token.AND:
			f.set(x, Val{T: t, S: and(a.S, b.S)})
		case token.OR:
			f.set(x, Val{T: t, S: or(a.S, b.S)})
		default:
			panic(unsupported("bool op " + op))
		}
		return
	}
	// pointer arithmetic on raw addresses (uintptr derived from a pointer)
	if a.P != nil || b.P != nil {
		f.set(x, f.ptrArith(op, a, b, x))
		return
	}
	term, side, kind := c.arith(op, a.S, b.S, x.Type(), x.Y.Type())
	if side != "" && side != "true" {
		if kind == "overflow" {
			if c.wraps {
				term = c.wrapInt(term, x.Type())
			} else {
				f.oblige("overflow", op, side, x.Pos(), nil, "integer overflow in "+op)
			}
		} else {
			f.oblige(kind, op, side, x.Pos(), nil, "integer division by zero")
		}
	}
	// signed division overflow (MinInt / -1) ignored: Go defines it (wraps)
	term = c.bind(x.Name(), term, c.sortOf(x.Type()))
	f.set(x, Val{T: x.Type(), S: term})
}

func (f *Frame) ptrArith(op string, a, b Val, x *ssa.BinOp) Val {
	c := f.c
	if a.P != nil && b.P == nil && (op == "+" || op == "-") {
		p := a.P
		n := len(p.Steps)
		if n > 0 && p.Steps[n-1].IsIdx {
			et := c.naturalType(p)
			sz := c.eng.sizes.Sizeof(et)
			q := *p
			q.Steps = append([]Step{}, p.Steps...)
			d := c.toIdx(b.S, b.T)
			if sz != 1 {
				if c.mode == "bv" {
					panic(unsupported("pointer arithmetic over multi-byte elements in bv mode"))
				}
				f.oblige("bounds", "align", fmt.Sprintf("(= (mod %s %d) 0)", d, sz), x.Pos(), nil, "pointer arithmetic not a multiple of the element size")
				d = fmt.Sprintf("(div %s %d)", d, sz)
			}
			if op == "+" {
				q.Steps[n-1].Idx = c.idxAdd(p.Steps[n-1].Idx, d)
			} else {
				q.Steps[n-1].Idx = c.idxSub(p.Steps[n-1].Idx, d)
			}
			q.Steps[n-1].Raw = true
			return Val{T: x.Type(), P: &q}
		}
	}
	if a.P != nil && b.P != nil && op == "-" && samePathRoot(a.P, b.P) {
		n := len(a.P.Steps)
		if n > 0 && n == len(b.P.Steps) && a.P.Steps[n-1].IsIdx {
			return Val{T: x.Type(), S: c.idxSub(a.P.Steps[n-1].Idx, b.P.Steps[n-1].Idx)}
		}
	}
	panic(unsupported("pointer arithmetic " + op))
}

// sameShape: same root object and same steps except for the value of the last index.
func sameShape(a, b *Path) bool {
	n := len(a.Steps)
	return samePathRoot(a, b) && n > 0 && a.Steps[n-1].IsIdx && b.Steps[n-1].IsIdx && a.View == b.View
}

func samePathRoot(a, b *Path) bool {
	if a.Kind != b.Kind || a.Cell != b.Cell || a.Ref != b.Ref || a.Glob != b.Glob || len(a.Steps) != len(b.Steps) {
		return false
	}
	for i := 0; i+1 < len(a.Steps); i++ {
		if a.Steps[i] != b.Steps[i] {
			return false
		}
	}
	return true
}

func (f *Frame) compare(op string, a, b Val, t types.Type, pos token.Pos) string {
	c := f.c
	switch u := t.Underlying().(type) {
	case *types.Basic:
		if isString(t) {
			eq := f.strEq(a.S, b.S)
			switch op {
			case "==":
				return eq
			case "!=":
				return not(eq)
			}
			// ordering: an abstract strict total order on texts (the lexicographic byte order
			// is one; nothing else about it is assumed)
			c.sortOf(textType)
			c.decl("fn:txtlt", "(declare-fun txtlt (Txt Txt) Bool)")
			c.decl("ax:txtlt", "(assert (forall ((a!o Txt) (b!o Txt)) (! (and (not (and (txtlt a!o b!o) (txtlt b!o a!o))) (or (txtlt a!o b!o) (txtlt b!o a!o) (= a!o b!o)) (not (txtlt a!o a!o))) :pattern ((txtlt a!o b!o)))))")
			c.decl("ax:txtlt3", "(assert (forall ((a!o Txt) (b!o Txt) (c!o Txt)) (! (=> (and (txtlt a!o b!o) (txtlt b!o c!o)) (txtlt a!o c!o)) :pattern ((txtlt a!o b!o) (txtlt b!o c!o)))))")
			norm := func(s string) string { return fmt.Sprintf("(txt (mkstr (sarr %s) (soff %s) (slen %s) 0))", s, s, s) }
			ta, tb := norm(a.S), norm(b.S)
			switch op {
			case "<":
				return fmt.Sprintf("(txtlt %s %s)", ta, tb)
			case ">":
				return fmt.Sprintf("(txtlt %s %s)", tb, ta)
			case "<=":
				return fmt.Sprintf("(not (txtlt %s %s))", tb, ta)
			case ">=":
				return fmt.Sprintf("(not (txtlt %s %s))", ta, tb)
			}
			panic(unsupported("string comparison " + op))
		}
		if isUnsafePtr(t) || u.Kind() == types.Uintptr {
			if a.P != nil && b.P != nil && samePathRoot(a.P, b.P) && len(a.P.Steps) > 0 {
				n := len(a.P.Steps)
				if c.mode == "bv" {
					m := map[string]string{"<": "bvult", "<=": "bvule", ">": "bvugt", ">=": "bvuge", "==": "=", "!=": "distinct"}
					return fmt.Sprintf("(%s %s %s)", m[op], a.P.Steps[n-1].Idx, b.P.Steps[n-1].Idx)
				}
				m := map[string]string{"<": "<", "<=": "<=", ">": ">", ">=": ">=", "==": "=", "!=": "distinct"}
				return fmt.Sprintf("(%s %s %s)", m[op], a.P.Steps[n-1].Idx, b.P.Steps[n-1].Idx)
			}
			if a.P != nil || b.P != nil {
				// comparison with nil
				other := b
				if a.P == nil {
					other = a
				}
				if other.P == nil && (other.S == "0") {
					if op == "==" {
						return "false"
					}
					if op == "!=" {
						return "true"
					}
				}
				panic(unsupported("comparison of raw pointers"))
			}
		}
		return c.cmp(op, a.S, b.S, t)
	case *types.Pointer:
		as, bs := f.ptrTerm(a), f.ptrTerm(b)
		return c.cmp(op, as, bs, t)
	case *types.Interface, *types.Signature, *types.Map, *types.Chan:
		return c.cmp(op, a.S, b.S, t)
	case *types.Slice:
		// only comparison with nil is legal
		var s Val
		if a.S == c.zero(t) {
			s = b
		} else {
			s = a
		}
		e := fmt.Sprintf("(= (sbase %s) 0)", s.S)
		if op == "!=" {
			return not(e)
		}
		return e
	case *types.Struct, *types.Array:
		return c.cmp(op, a.S, b.S, t)
	}
	panic(unsupported("comparison at type " + t.String()))
}

func (f *Frame) ptrTerm(v Val) string {
	if len(v.Alts) > 0 {
		return f.altTerm(v)
	}
	if v.P == nil {
		return v.S
	}
	if v.P.Kind == rootHeap && len(v.P.Steps) == 0 {
		return v.P.Ref
	}
	// address of a local / interior: non-nil, identity opaque
	f.c.note("address identity of interior pointer abstracted")
	return f.c.addrOf(v.P)
}

func (c *Ctx) addrOf(p *Path) string {
	key := "addr:" + p.String()
	n := "addr." + sanitize(p.String())
	if len(n) > 80 {
		n = n[:80]
	}
	c.decl(key, fmt.Sprintf("(declare-const %s Int)", n))
	c.decl(key+":nz", fmt.Sprintf("(assert (> %s 0))", n))
	return n
}

func (f *Frame) strEq(a, b string) string {
	c := f.c
	if a == b {
		return "true"
	}
	// constant string on one side: expand
	for _, pr := range [][2]string{{a, b}, {b, a}} {
		for s, t := range c.strConsts {
			if t == pr[1] {
				parts := []string{fmt.Sprintf("(= (slen %s) %s)", pr[0], c.idxLit(int64(len(s))))}
				for i := 0; i < len(s); i++ {
					parts = append(parts, fmt.Sprintf("(= (select (sarr %s) %s) %s)", pr[0], c.idxAdd(fmt.Sprintf("(soff %s)", pr[0]), c.idxLit(int64(i))), c.byteLit(s[i])))
				}
				return and(parts...)
			}
		}
	}
	// content equality is equality of the abstract texts (ax:txt ties it to the bytes);
	// equalities between txt terms are decided by congruence, not by quantifier matching
	c.sortOf(textType)
	c.declStrEq()
	c.decl("fn:txt", "(declare-fun txt (Str) Txt)")
	c.decl("ax:txt", "(assert (forall ((a!t Str) (b!t Str)) (! (= (streq a!t b!t) (= (txt a!t) (txt b!t))) :pattern ((txt a!t) (txt b!t)))))")
	norm := func(s string) string { return fmt.Sprintf("(txt (mkstr (sarr %s) (soff %s) (slen %s) 0))", s, s, s) }
	return fmt.Sprintf("(= %s %s)", norm(a), norm(b))
}

func (c *Ctx) declStrEq() {
	i := c.idxSort()
	if c.mode == "bv" {
		c.decl("fn:streq", fmt.Sprintf("(define-fun streq ((a Str) (b Str)) Bool (and (= (slen a) (slen b)) (forall ((k %s)) (=> (bvult k (slen a)) (= (select (sarr a) (bvadd (soff a) k)) (select (sarr b) (bvadd (soff b) k)))))))", i))
		return
	}
	c.decl("fn:streq", fmt.Sprintf("(define-fun streq ((a Str) (b Str)) Bool (and (= (slen a) (slen b)) (forall ((k %s)) (=> (and (<= 0 k) (< k (slen a))) (= (select (sarr a) (+ (soff a) k)) (select (sarr b) (+ (soff b) k)))))))", i))
}

func (f *Frame) strConcat(a, b Val) Val {
	c := f.c
	r := c.fresh("cat", "Str")
	c.assume(c.strInv(r))
	c.assume(fmt.Sprintf("(= (sown %s) 0)", r))
	if c.mode == "bv" {
		c.assume(fmt.Sprintf("(= (slen %s) (bvadd (slen %s) (slen %s)))", r, a.S, b.S))
		c.assume(fmt.Sprintf("(forall ((k (_ BitVec 64))) (=> (bvult k (slen %s)) (= (select (sarr %s) (bvadd (soff %s) k)) (select (sarr %s) (bvadd (soff %s) k)))))", a.S, r, r, a.S, a.S))
		c.assume(fmt.Sprintf("(forall ((k (_ BitVec 64))) (=> (bvult k (slen %s)) (= (select (sarr %s) (bvadd (soff %s) (bvadd (slen %s) k))) (select (sarr %s) (bvadd (soff %s) k)))))", b.S, r, r, a.S, b.S, b.S))
	} else {
		c.assume(fmt.Sprintf("(= (slen %s) (+ (slen %s) (slen %s)))", r, a.S, b.S))
		c.assume(fmt.Sprintf("(forall ((k Int)) (=> (and (<= 0 k) (< k (slen %s))) (= (select (sarr %s) (+ (soff %s) k)) (select (sarr %s) (+ (soff %s) k)))))", a.S, r, r, a.S, a.S))
		c.assume(fmt.Sprintf("(forall ((k Int)) (=> (and (<= 0 k) (< k (slen %s))) (= (select (sarr %s) (+ (soff %s) (slen %s) k)) (select (sarr %s) (+ (soff %s) k)))))", b.S, r, r, a.S, b.S, b.S))
	}
	return Val{T: a.T, S: r}
}

func (f *Frame) execPhi(x *ssa.Phi) {
	c := f.c
	b := x.Block()
	ins := f.in[b]
	var term string
	first := true
	var anyP *Val
	for i, pred := range b.Preds {
		e, ok := ins[pred]
		if !ok {
			continue
		}
		v := f.get(x.Edges[i])
		if v.P != nil {
			anyP = &v
		}
		if first {
			term = v.S
			first = false
		} else {
			term = ite(e.cond, v.S, term)
		}
	}
	if anyP != nil {
		panic(unsupported("phi of structural pointers"))
	}
	f.set(x, Val{T: x.Type(), S: c.bind(x.Name(), term, c.sortOf(x.Type()))})
}

func (f *Frame) boundsOblige(kind string, idx, n string, pos token.Pos, text string) {
	c := f.c
	var g string
	if c.mode == "bv" {
		g = fmt.Sprintf("(bvult %s %s)", idx, n)
	} else {
		g = fmt.Sprintf("(and (<= 0 %s) (< %s %s))", idx, idx, n)
	}
	f.oblige("bounds", kind, g, pos, nil, text)
}

func (f *Frame) execIndexAddr(x *ssa.IndexAddr) {
	c := f.c
	base := f.get(x.X)
	iv := f.get(x.Index)
	idx := c.toIdx(iv.S, iv.T)
	switch u := x.X.Type().Underlying().(type) {
	case *types.Slice:
		f.boundsOblige("index", idx, fmt.Sprintf("(xlen %s)", base.S), x.Pos(), "index out of range")
		if c.mode == "int" {
			// ground instance of the arrat definition: lets quantified contract clauses (which index through arrat) fire on this access
			hn, hs := c.heapNameArr(u.Elem())
			arr := fmt.Sprintf("(select %s (sbase %s))", c.heap(f.st, hn, hs), base.S)
			off := fmt.Sprintf("(xoff %s)", base.S)
			c.assume(fmt.Sprintf("(= %s (select %s %s))", c.arrAt(c.sortOf(u.Elem()), arr, off, idx), arr, c.idxAdd(off, idx)))
		}
		p := &Path{Kind: rootArr, T: u.Elem(), Ref: fmt.Sprintf("(sbase %s)", base.S),
			Steps: []Step{{IsIdx: true, Idx: c.idxAdd(fmt.Sprintf("(xoff %s)", base.S), idx)}}}
		f.set(x, Val{T: x.Type(), P: p})
	case *types.Pointer: // pointer to array
		at := u.Elem().Underlying().(*types.Array)
		f.boundsOblige("index", idx, c.idxLit(at.Len()), x.Pos(), "index out of range")
		if len(base.Alts) > 0 {
			var out []PAlt
			for _, a := range f.derefAlts(base, x.Pos(), "indexaddr") {
				out = append(out, PAlt{a.Cond, a.P.extend(Step{IsIdx: true, Idx: idx})})
			}
			f.set(x, mkAltsVal(x.Type(), out))
			return
		}
		p := f.ptrPath(base, x.Pos(), "indexaddr")
		f.set(x, Val{T: x.Type(), P: p.extend(Step{IsIdx: true, Idx: idx})})
	default:
		panic(unsupported("IndexAddr on " + x.X.Type().String()))
	}
}

func (f *Frame) execIndex(x *ssa.Index) {
	c := f.c
	base := f.get(x.X)
	iv := f.get(x.Index)
	idx := c.toIdx(iv.S, iv.T)
	switch u := x.X.Type().Underlying().(type) {
	case *types.Basic: // string
		f.boundsOblige("strindex", idx, fmt.Sprintf("(slen %s)", base.S), x.Pos(), "string index out of range")
		t := fmt.Sprintf("(select (sarr %s) %s)", base.S, c.idxAdd(fmt.Sprintf("(soff %s)", base.S), idx))
		t = c.bind(x.Name(), t, c.byteSort())
		c.assume(c.inRange(t, types.Typ[types.Uint8]))
		f.set(x, Val{T: x.Type(), S: t})
	case *types.Array:
		f.boundsOblige("index", idx, c.idxLit(u.Len()), x.Pos(), "index out of range")
		t := c.bind(x.Name(), fmt.Sprintf("(select %s %s)", base.S, idx), c.sortOf(u.Elem()))
		f.set(x, Val{T: x.Type(), S: t})
	default:
		panic(unsupported("Index on " + x.X.Type().String()))
	}
}

func (f *Frame) execSlice(x *ssa.Slice) {
	c := f.c
	base := f.get(x.X)
	var lo, hi, mx string
	if x.Low != nil {
		v := f.get(x.Low)
		lo = c.toIdx(v.S, v.T)
	} else {
		lo = c.idxLit(0)
	}
	if x.High != nil {
		v := f.get(x.High)
		hi = c.toIdx(v.S, v.T)
	}
	if x.Max != nil {
		v := f.get(x.Max)
		mx = c.toIdx(v.S, v.T)
	}
	le := func(a, b string) string {
		if c.mode == "bv" {
			return fmt.Sprintf("(bvule %s %s)", a, b)
		}
		return fmt.Sprintf("(<= %s %s)", a, b)
	}
	nonneg := func(a string) string {
		if c.mode == "bv" {
			return "true"
		}
		return fmt.Sprintf("(<= 0 %s)", a)
	}
	switch u := x.X.Type().Underlying().(type) {
	case *types.Basic: // string
		n := fmt.Sprintf("(slen %s)", base.S)
		if hi == "" {
			hi = n
		}
		f.oblige("bounds", "strslice", and(nonneg(lo), le(lo, hi), le(hi, n)), x.Pos(), nil, "slice bounds out of range")
		r := fmt.Sprintf("(mkstr (sarr %s) %s %s (sown %s))", base.S, c.idxAdd(fmt.Sprintf("(soff %s)", base.S), lo), c.idxSub(hi, lo), base.S)
		f.set(x, Val{T: x.Type(), S: c.bind(x.Name(), r, "Str")})
	case *types.Slice:
		cp := fmt.Sprintf("(xcap %s)", base.S)
		if hi == "" {
			hi = fmt.Sprintf("(xlen %s)", base.S)
		}
		if mx == "" {
			mx = cp
		}
		f.oblige("bounds", "slice", and(nonneg(lo), le(lo, hi), le(hi, mx), le(mx, cp)), x.Pos(), nil, "slice bounds out of range")
		r := fmt.Sprintf("(mkslice (sbase %s) %s %s %s)", base.S, c.idxAdd(fmt.Sprintf("(xoff %s)", base.S), lo), c.idxSub(hi, lo), c.idxSub(mx, lo))
		f.set(x, Val{T: x.Type(), S: c.bind(x.Name(), r, "Slice")})
	case *types.Pointer: // pointer to array
		at := u.Elem().Underlying().(*types.Array)
		n := c.idxLit(at.Len())
		if hi == "" {
			hi = n
		}
		if mx == "" {
			mx = n
		}
		f.oblige("bounds", "slice", and(nonneg(lo), le(lo, hi), le(hi, mx), le(mx, n)), x.Pos(), nil, "slice bounds out of range")
		// slicing an array object: the array must live in a slice heap; model by a fresh backing array equal to the array contents
		p := f.ptrPath(base, x.Pos(), "slicearr")
		arr := c.load(f.st, p)
		r := c.fresh("arrbase", "Int")
		f.assumeFresh(r)
		hp := &Path{Kind: rootArr, T: at.Elem(), Ref: r}
		c.setRoot(f.st, hp, arr)
		c.note("slice of a local array modelled as a copy (writes through the slice do not update the array)")
		sl := fmt.Sprintf("(mkslice %s %s %s %s)", r, lo, c.idxSub(hi, lo), c.idxSub(mx, lo))
		f.set(x, Val{T: x.Type(), S: sl})
	default:
		panic(unsupported("Slice on " + x.X.Type().String()))
	}
}

func (f *Frame) execMakeSlice(x *ssa.MakeSlice) {
	c := f.c
	lv, cv := f.get(x.Len), f.get(x.Cap)
	l, cp := c.toIdx(lv.S, lv.T), c.toIdx(cv.S, cv.T)
	et := x.Type().Underlying().(*types.Slice).Elem()
	if c.mode == "bv" {
		f.oblige("panic", "makeslice", fmt.Sprintf("(and (bvule %s %s) (bvult %s (_ bv4611686018427387904 64)))", l, cp, cp), x.Pos(), nil, "makeslice: len out of range")
	} else {
		f.oblige("panic", "makeslice", fmt.Sprintf("(and (<= 0 %s) (<= %s %s) (<= %s 4611686018427387904))", l, l, cp, cp), x.Pos(), nil, "makeslice: len out of range")
	}
	// an allocation that succeeds is below the address-space limit (2^47 bytes on amd64); larger requests
	// end in an out-of-memory failure, which is outside the properties considered here
	if c.mode == "bv" {
		c.assume(implies(f.reach, fmt.Sprintf("(bvule %s (_ bv140737488355328 64))", cp)))
	} else {
		c.assume(implies(f.reach, fmt.Sprintf("(<= %s 140737488355328)", cp)))
	}
	c.note("allocations above 2^47 elements are treated as impossible (out-of-memory is not modelled)")
	r := c.fresh("mk", "Int")
	f.assumeFresh(r)
	hp := &Path{Kind: rootArr, T: et, Ref: r}
	c.setRoot(f.st, hp, fmt.Sprintf("((as const (Array %s %s)) %s)", c.idxSort(), c.sortOf(et), c.zero(et)))
	f.set(x, Val{T: x.Type(), S: fmt.Sprintf("(mkslice %s %s %s %s)", r, c.idxLit(0), l, cp)})
}

func (f *Frame) execConvert(x *ssa.Convert) {
	c := f.c
	v := f.get(x.X)
	from, to := x.X.Type(), x.Type()
	switch {
	case isInt(from) && isInt(to):
		if v.P != nil {
			f.set(x, Val{T: to, P: v.P})
			return
		}
		f.set(x, Val{T: to, S: c.convInt(v.S, from, to)})
	case isUnsafePtr(to) && isPointer(from), isUnsafePtr(from) && isPointer(to),
		isUnsafePtr(from) && isInt(to), isInt(from) && isUnsafePtr(to):
		// pointer reinterpretation
		if v.P == nil && isPointer(from) {
			pt := from.Underlying().(*types.Pointer)
			v = Val{T: from, P: &Path{Kind: rootHeap, T: pt.Elem(), Ref: v.S}, S: v.S}
			// no nil obligation here; it arises on use
			_ = pt
		}
		if v.P == nil {
			// integer -> pointer or opaque pointer
			f.set(x, Val{T: to, S: v.S})
			return
		}
		q := *v.P
		if pt, ok := to.Underlying().(*types.Pointer); ok {
			nat := c.naturalType(&q)
			if types.Identical(nat, pt.Elem()) {
				q.View = nil
			} else if viewKind(nat, pt.Elem()) != "" {
				q.View = pt.Elem()
			} else if c.sameLayout(nat, pt.Elem()) {
				q.View = nil
				c.note(fmt.Sprintf("unsafe cast between layout-identical types %s and %s", nat, pt.Elem()))
			} else {
				q.View = pt.Elem()
			}
		}
		f.set(x, Val{T: to, P: &q, S: v.S})
	case isString(to) && isByteSlice(from):
		// string(bytes): snapshot copy
		n, s := c.heapNameArr(types.Typ[types.Uint8])
		arr := fmt.Sprintf("(select %s (sbase %s))", c.heap(f.st, n, s), v.S)
		r := fmt.Sprintf("(mkstr %s (xoff %s) (xlen %s) 0)", arr, v.S, v.S)
		f.set(x, Val{T: to, S: c.bind(x.Name(), r, "Str")})
	case isByteSlice(to) && isString(from):
		// []byte(s): fresh array holding a copy
		r := c.fresh("bytes", "Int")
		f.assumeFresh(r)
		arr := c.fresh("bytesarr", fmt.Sprintf("(Array %s %s)", c.idxSort(), c.byteSort()))
		if c.mode == "bv" {
			c.assume(fmt.Sprintf("(forall ((k (_ BitVec 64))) (=> (bvult k (slen %s)) (= (select %s k) (select (sarr %s) (bvadd (soff %s) k)))))", v.S, arr, v.S, v.S))
		} else {
			c.assume(fmt.Sprintf("(forall ((k Int)) (=> (and (<= 0 k) (< k (slen %s))) (= (select %s k) (select (sarr %s) (+ (soff %s) k)))))", v.S, arr, v.S, v.S))
		}
		c.setRoot(f.st, &Path{Kind: rootArr, T: types.Typ[types.Uint8], Ref: r}, arr)
		f.set(x, Val{T: to, S: fmt.Sprintf("(mkslice %s %s (slen %s) (slen %s))", r, c.idxLit(0), v.S, v.S)})
	case isFloat(from) && isFloat(to):
		if c.sortOf(from) == c.sortOf(to) {
			f.set(x, Val{T: to, S: v.S})
		} else {
			eb, sb := 11, 53
			if to.Underlying().(*types.Basic).Kind() == types.Float32 {
				eb, sb = 8, 24
			}
			f.set(x, Val{T: to, S: fmt.Sprintf("((_ to_fp %d %d) RNE %s)", eb, sb, v.S)})
		}
	case isInt(from) && isFloat(to):
		eb, sb := 11, 53
		if to.Underlying().(*types.Basic).Kind() == types.Float32 {
			eb, sb = 8, 24
		}
		if c.mode == "bv" {
			_, signed, _ := intInfo(from)
			if signed {
				f.set(x, Val{T: to, S: fmt.Sprintf("((_ to_fp %d %d) RNE %s)", eb, sb, v.S)})
			} else {
				f.set(x, Val{T: to, S: fmt.Sprintf("((_ to_fp_unsigned %d %d) RNE %s)", eb, sb, v.S)})
			}
		} else {
			f.set(x, Val{T: to, S: fmt.Sprintf("((_ to_fp %d %d) RNE (to_real %s))", eb, sb, v.S)})
		}
	case isFloat(from) && isInt(to):
		c.note("float to integer conversion abstracted")
		r := c.fresh("f2i", c.sortOf(to))
		c.assume(c.inRange(r, to))
		f.set(x, Val{T: to, S: r})
	default:
		panic(unsupported(fmt.Sprintf("conversion %s -> %s", from, to)))
	}
}

func (c *Ctx) sameLayout(a, b types.Type) bool {
	return c.sortOf(a) == c.sortOf(b)
}

func isByteSlice(t types.Type) bool {
	s, ok := t.Underlying().(*types.Slice)
	if !ok {
		return false
	}
	b, ok := s.Elem().Underlying().(*types.Basic)
	return ok && b.Kind() == types.Uint8
}

func (f *Frame) execMakeInterface(x *ssa.MakeInterface) {
	c := f.c
	v := f.get(x.X)
	r := c.fresh("iface", "Int")
	c.decl("fn:dyntype", "(declare-fun dyntype (Int) Int)")
	c.assume(fmt.Sprintf("(and (> %s 0) (= (dyntype %s) %d))", r, r, c.eng.typeID(x.X.Type())))
	if v.P == nil && v.S != "" {
		srt := c.sortOf(x.X.Type())
		fn := "ifaceval_" + sanitize(srt)
		c.decl("fn:"+fn, fmt.Sprintf("(declare-fun %s (Int) %s)", fn, srt))
		c.assume(fmt.Sprintf("(= (%s %s) %s)", fn, r, v.S))
	}
	f.set(x, Val{T: x.Type(), S: r})
}

func (f *Frame) execTypeAssert(x *ssa.TypeAssert) {
	c := f.c
	v := f.get(x.X)
	c.decl("fn:dyntype", "(declare-fun dyntype (Int) Int)")
	var ok string
	if _, isIface := x.AssertedType.Underlying().(*types.Interface); isIface {
		okc := c.fresh("implements", "Bool")
		ok = and(fmt.Sprintf("(not (= %s 0))", v.S), okc)
	} else {
		ok = fmt.Sprintf("(and (not (= %s 0)) (= (dyntype %s) %d))", v.S, v.S, c.eng.typeID(x.AssertedType))
	}
	var res Val
	if _, isIface := x.AssertedType.Underlying().(*types.Interface); isIface {
		res = Val{T: x.AssertedType, S: v.S}
	} else {
		srt := c.sortOf(x.AssertedType)
		fn := "ifaceval_" + sanitize(srt)
		c.decl("fn:"+fn, fmt.Sprintf("(declare-fun %s (Int) %s)", fn, srt))
		t := fmt.Sprintf("(%s %s)", fn, v.S)
		res = Val{T: x.AssertedType, S: t}
		if inv := c.typeInv(t, x.AssertedType); inv != "true" {
			c.assume(implies(ok, inv))
		}
	}
	if x.CommaOk {
		f.set(x, Val{T: x.Type(), Tup: []Val{res, {T: types.Typ[types.Bool], S: ok}}})
		return
	}
	f.oblige("panic", "typeassert", ok, x.Pos(), nil, "type assertion may fail")
	f.set(x, res)
}

func (f *Frame) execLookup(x *ssa.Lookup) {
	c := f.c
	base := f.get(x.X)
	if isString(x.X.Type()) {
		iv := f.get(x.Index)
		idx := c.toIdx(iv.S, iv.T)
		f.boundsOblige("strindex", idx, fmt.Sprintf("(slen %s)", base.S), x.Pos(), "string index out of range")
		t := fmt.Sprintf("(select (sarr %s) %s)", base.S, c.idxAdd(fmt.Sprintf("(soff %s)", base.S), idx))
		f.set(x, Val{T: x.Type(), S: t})
		return
	}
	if r, ok := f.execMapLookup(base, f.get(x.Index), x.CommaOk, x.Type()); ok {
		f.set(x, r)
		return
	}
	// map lookup: contents not modelled
	c.note("map lookup abstracted (arbitrary well-typed result)")
	mt := x.X.Type().Underlying().(*types.Map)
	r := c.fresh("mapval", c.sortOf(mt.Elem()))
	if inv := c.typeInv(r, mt.Elem()); inv != "true" {
		c.assume(inv)
	}
	rv := Val{T: mt.Elem(), S: r}
	if x.CommaOk {
		okc := c.fresh("mapok", "Bool")
		f.set(x, Val{T: x.Type(), Tup: []Val{rv, {T: types.Typ[types.Bool], S: okc}}})
		return
	}
	f.set(x, rv)
}

func (f *Frame) execNext(x *ssa.Next) {
	c := f.c
	c.note("range iteration abstracted (arbitrary order, arbitrary well-typed elements)")
	tup := x.Type().(*types.Tuple)
	vs := []Val{{T: types.Typ[types.Bool], S: c.fresh("more", "Bool")}}
	for i := 1; i < tup.Len(); i++ {
		t := tup.At(i).Type()
		if t == nil || isInvalid(t) {
			vs = append(vs, Val{T: t})
			continue
		}
		r := c.fresh("rng", c.sortOf(t))
		if inv := c.typeInv(r, t); inv != "true" {
			c.assume(inv)
		}
		vs = append(vs, Val{T: t, S: r})
	}
	f.set(x, Val{T: x.Type(), Tup: vs})
}

func isInvalid(t types.Type) bool {
	b, ok := t.(*types.Basic)
	return ok && b.Kind() == types.Invalid
}
