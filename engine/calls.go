package main

// Calls: builtins, contracts at call sites, inlining of small leaf callees,
// havoc for everything else; reinterpreting views of slices/strings.

import (
	"fmt"
	"go/token"
	"go/types"
	"sort"
	"strings"

	"golang.org/x/tools/go/ssa"
)

func (f *Frame) callOperands(cc *ssa.CallCommon) (Val, []Val) {
	var fn Val
	if !cc.IsInvoke() {
		if _, isB := cc.Value.(*ssa.Builtin); !isB {
			fn = f.get(cc.Value)
		}
	} else {
		fn = f.get(cc.Value)
	}
	var args []Val
	for _, a := range cc.Args {
		args = append(args, f.get(a))
	}
	return fn, args
}

func (f *Frame) execCall(cc *ssa.CallCommon, pos token.Pos, instr ssa.Value) Val {
	fn, args := f.callOperands(cc)
	r := f.execCallWith(cc, pos, fn, args)
	if f.top && f.fc != nil && len(f.fc.After) > 0 {
		var keys []string
		name := ""
		if callee := cc.StaticCallee(); callee != nil && callee.Pkg != nil {
			name = callee.Name()
			keys = []string{callee.Pkg.Pkg.Name() + "." + callee.Name(), callee.Name()}
		} else if cc.IsInvoke() {
			name = cc.Method.Name()
			keys = []string{name}
		}
		for _, key := range keys {
			for i, as := range f.fc.After[key] {
				env := f.specEnv(f.st, f.entrySt, true)
				// the callee's results are r0, r1, ... (they are not stored into locals yet)
				if len(r.Tup) > 0 {
					for k, rv := range r.Tup {
						env.vars[fmt.Sprintf("r%d", k)] = rv
					}
				} else if r.T != nil {
					if _, isTuple := r.T.(*types.Tuple); !isTuple {
						env.vars["r0"] = r
					}
				}
				g := env.evalBool(as.Expr)
				if as.Kind == "assume" {
					f.c.used[fmt.Sprintf("explicit assumption after %s in %s: %s", key, f.c.fnName, as.Text)] = true
				} else {
					f.oblige("assert", fmt.Sprintf("after-%s.%d", name, i), g, pos, as.Props, as.Text)
				}
				f.c.assume(implies(f.reach, g))
			}
		}
	}
	return r
}

func resultVal(sig *types.Signature, vs []Val) Val {
	switch sig.Results().Len() {
	case 0:
		return Val{T: types.NewTuple()}
	case 1:
		return vs[0]
	}
	return Val{T: sig.Results(), Tup: vs}
}

func (f *Frame) execCallWith(cc *ssa.CallCommon, pos token.Pos, fn Val, args []Val) Val {
	c := f.c
	if b, ok := cc.Value.(*ssa.Builtin); ok && !cc.IsInvoke() {
		return f.execBuiltin(b, cc, pos, args)
	}
	sig := cc.Signature()
	if cc.IsInvoke() {
		// interface method call
		key := "iface:" + types.TypeString(cc.Value.Type(), nil) + "." + cc.Method.Name()
		if fc := c.eng.contractByKey(key); fc != nil {
			names := []string{"recv"}
			for i := 0; i < sig.Params().Len(); i++ {
				names = append(names, sig.Params().At(i).Name())
			}
			return f.applyContract(fc, nil, sig, names, append([]Val{fn}, args...), pos, key)
		}
		f.oblige("nil", "invoke", fmt.Sprintf("(not (= %s 0))", fn.S), pos, nil, "method call on nil interface")
		return f.havocCall(sig, args, pos, key)
	}
	callee := cc.StaticCallee()
	var bindings []Val
	if callee == nil && fn.Fn != nil {
		callee = fn.Fn
		bindings = fn.Bnd
	} else if fn.Cl != nil {
		bindings = fn.Bnd
	}
	if callee == nil {
		return f.havocCall(sig, args, pos, "dynamic call")
	}
	name := callee.String()
	if r, ok := f.intrinsic(name, callee, args, pos); ok {
		return r
	}
	if fc := c.eng.contractFor(callee); fc != nil && !fc.Inline {
		var names []string
		for _, p := range callee.Params {
			names = append(names, p.Name())
		}
		if len(callee.Params) == 0 && len(args) > 0 {
			// function without SSA body (assembly): take names from the signature
			if sig.Recv() != nil {
				names = append(names, sig.Recv().Name())
			}
			for i := 0; i < sig.Params().Len(); i++ {
				names = append(names, sig.Params().At(i).Name())
			}
		}
		return f.applyContract(fc, callee, callee.Signature, names, args, pos, name)
	}
	if f.canInline(callee) {
		return f.inline(callee, args, bindings, pos)
	}
	return f.havocCall(callee.Signature, args, pos, name)
}

func (f *Frame) canInline(callee *ssa.Function) bool {
	if len(callee.Blocks) == 0 {
		return false
	}
	for g := f; g != nil; g = g.caller {
		if g.fn == callee {
			return false
		}
	}
	if f.depth >= 8 {
		return false
	}
	if fc := f.c.eng.contractFor(callee); fc != nil && fc.Inline {
		return len(loopHeaders(callee)) == 0
	}
	if len(loopHeaders(callee)) > 0 {
		return false
	}
	n := 0
	for _, b := range callee.Blocks {
		for _, in := range b.Instrs {
			if _, ok := in.(*ssa.DebugRef); !ok {
				n++
			}
		}
	}
	return n <= 120
}

func (f *Frame) inline(callee *ssa.Function, args []Val, bindings []Val, pos token.Pos) Val {
	c := f.c
	c.inlined[callee.String()] = true
	g := c.eng.newFrame(c, callee, nil)
	g.caller = f
	g.depth = f.depth + 1
	for i, p := range callee.Params {
		if i < len(args) {
			g.vals[p] = args[i]
		}
	}
	for i, fv := range callee.FreeVars {
		if i < len(bindings) {
			g.vals[fv] = bindings[i]
		}
	}
	g.entrySt = f.st
	g.run(f.st.clone(), f.reach)
	if len(g.rets) == 0 {
		// callee never returns (always panics): obligations were raised; the rest is unreachable
		f.reach = "false"
		var vs []Val
		for i := 0; i < callee.Signature.Results().Len(); i++ {
			t := callee.Signature.Results().At(i).Type()
			vs = append(vs, Val{T: t, S: c.zero(t)})
		}
		return resultVal(callee.Signature, vs)
	}
	var es []edge
	for _, r := range g.rets {
		es = append(es, edge{r.cond, r.st})
	}
	st, _ := c.merge(es)
	// drop the callee's cells
	for a := range st.cells {
		if a.Parent() == callee {
			delete(st.cells, a)
			delete(st.ptrs, a)
			delete(st.poison, a)
		}
	}
	var ord []*ssa.Alloc
	for _, a := range st.order {
		if a.Parent() != callee {
			ord = append(ord, a)
		}
	}
	st.order = ord
	f.st = st
	nres := callee.Signature.Results().Len()
	var vs []Val
	for i := 0; i < nres; i++ {
		t := callee.Signature.Results().At(i).Type()
		first := g.rets[0].vals[i]
		same := true
		for _, r := range g.rets[1:] {
			v := r.vals[i]
			if v.S != first.S || (v.P == nil) != (first.P == nil) || (v.P != nil && v.P.String() != first.P.String()) || len(v.Alts) > 0 || len(first.Alts) > 0 {
				same = false
			}
		}
		if same {
			vs = append(vs, first)
			continue
		}
		isPtr := false
		for _, r := range g.rets {
			if r.vals[i].P != nil || len(r.vals[i].Alts) > 0 {
				isPtr = true
			}
		}
		if isPtr {
			// different interior pointers on different return paths: guarded alternatives
			var as []PAlt
			for _, r := range g.rets {
				for _, a := range f.alts(r.vals[i]) {
					as = append(as, PAlt{and(r.cond, a.Cond), a.P})
				}
			}
			vs = append(vs, Val{T: t, Alts: as})
			continue
		}
		var rc, rt []string
		for _, r := range g.rets {
			rc = append(rc, r.cond)
			rt = append(rt, r.vals[i].S)
		}
		vs = append(vs, Val{T: t, S: c.mergeTerm("ret."+callee.Name(), c.sortOf(t), rc, rt)})
	}
	return resultVal(callee.Signature, vs)
}

// havocAll forgets everything about the heap and globals.
func (f *Frame) havocAll() {
	c := f.c
	cur := c.now(f.st)
	c.nhavoc++
	f.st.heaps = map[string]string{}
	f.st.hid = c.nhavoc
	n := c.fresh("now", "Int")
	c.assume(fmt.Sprintf("(>= %s %s)", n, cur))
	f.st.heaps[nowHeap] = n
}

func (f *Frame) havocCall(sig *types.Signature, args []Val, pos token.Pos, what string) Val {
	c := f.c
	c.note("call without contract, effects havoced: " + what)
	f.havocAll()
	// locals whose address was passed are havoced too
	for _, a := range args {
		if a.P != nil && a.P.Kind == rootCell {
			t := a.P.Cell.Type().(*types.Pointer).Elem()
			n := c.fresh("hv."+a.P.Cell.Comment, c.sortOf(t))
			c.assume(c.typeInv(n, t))
			f.st.cells[a.P.Cell] = n
		}
	}
	var vs []Val
	for i := 0; i < sig.Results().Len(); i++ {
		t := sig.Results().At(i).Type()
		vs = append(vs, f.freshVal("res", t))
	}
	return resultVal(sig, vs)
}

func (f *Frame) freshVal(prefix string, t types.Type) Val {
	c := f.c
	n := c.fresh(prefix, c.sortOf(t))
	if inv := c.typeInv(n, t); inv != "true" {
		c.assume(inv)
	}
	// references handed to us exist by now
	switch t.Underlying().(type) {
	case *types.Pointer, *types.Map:
		c.assume(c.bornBefore(f.st, n))
	case *types.Slice:
		c.assume(c.bornBefore(f.st, fmt.Sprintf("(sbase %s)", n)))
	}
	return Val{T: t, S: n}
}

// applyContract uses a callee's contract at a call site.
func (f *Frame) applyContract(fc *FuncContract, callee *ssa.Function, sig *types.Signature, names []string, args []Val, pos token.Pos, what string) Val {
	c := f.c
	if fc.Assumed {
		c.used[fc.Pkg+"."+fc.Key+": "+fc.Trusted] = true
	}
	pkg := f.fn.Pkg
	if callee != nil && callee.Pkg != nil {
		pkg = callee.Pkg
	} else if p := c.eng.ssaPkg(fc.Pkg); p != nil {
		pkg = p
	}
	env := &SpecEnv{f: f, c: c, vars: map[string]Val{}, st: f.st, old: f.st, pkg: pkg}
	for i, n := range names {
		if i < len(args) && n != "" && n != "_" {
			env.vars[n] = args[i]
		}
	}
	for i, p := range fc.Params {
		if i < len(args) {
			env.vars[p.Name] = args[i]
		}
	}
	short := what
	if i := strings.LastIndex(short, "/"); i >= 0 {
		short = short[i+1:]
	}
	for i, r := range fc.Requires {
		g := env.evalBool(r.Expr)
		f.oblige("pre", fmt.Sprintf("%s.%d", short, i), g, pos, r.Props, "precondition of "+short+": "+r.Text)
	}
	old := f.st.clone()
	f.advanceClock()
	// frame
	// the locations are those designated in the state before the call
	var lvs []lval
	for _, m := range fc.Modifies {
		lvs = append(lvs, env.lvalue(m))
	}
	for _, lv := range lvs {
		f.havocLval(lv)
	}
	if fc.ModAll {
		f.havocAll()
		if tf := f.topFrame(); tf.fc == nil || !tf.fc.ModAll {
			f.oblige("frame", "anything", "false", pos, nil, "call of "+short+", which may modify anything, in a function whose contract does not say 'modifies anything'")
		}
	}
	// results
	var vs []Val
	post := &SpecEnv{f: f, c: c, vars: env.vars, st: f.st, old: old, pkg: pkg}
	for i := 0; i < sig.Results().Len(); i++ {
		rv := sig.Results().At(i)
		v := f.freshVal("r."+sanitize(short), rv.Type())
		vs = append(vs, v)
		if rv.Name() != "" && rv.Name() != "_" {
			post.vars[rv.Name()] = v
		}
		post.vars[fmt.Sprintf("r%d", i)] = v
		if i < len(fc.Results) {
			post.vars[fc.Results[i].Name] = v
		}
	}
	if len(vs) == 1 {
		post.vars["result"] = vs[0]
	}
	for _, w := range fc.Witness {
		// for the caller the witness is existentially quantified: a fresh constant
		post.vars[w.Name] = f.freshVal("wit."+w.Name, post.typeByName(w.Type))
	}
	for _, en := range fc.Ensures {
		c.assume(implies(f.reach, post.evalBool(en.Expr)))
	}
	return resultVal(sig, vs)
}

func (f *Frame) havocLval(lv lval) {
	c := f.c
	if lv.mapM != nil {
		m := lv.mapM
		for _, hn := range [][2]string{{m.has, m.hasSort}, {m.val, m.valSort}, {m.length, m.lenSort}} {
			f.frameWrite(hn[0], lv.mapRef, f.curPos)
			h := c.heap(f.st, hn[0], hn[1])
			inner := hn[1][len("(Array Int ") : len(hn[1])-1]
			nv := c.fresh("hvmap", inner)
			f.st.heaps[hn[0]] = c.bind(hn[0], fmt.Sprintf("(store %s %s %s)", h, lv.mapRef, nv), hn[1])
		}
		return
	}
	if len(lv.heapAll) > 0 {
		for _, n := range lv.heapAll {
			f.frameWrite(n, "", f.curPos)
			f.st.heaps[n] = c.fresh("hv."+n, c.heapSorts[n])
		}
		return
	}
	if lv.globalsOf != nil {
		f.frameWrite("G_"+sanitize(lv.globalsOf.Pkg.Path()+".")+"*", "", f.curPos)
		for _, name := range sortedMemberNames(lv.globalsOf) {
			g, ok := lv.globalsOf.Members[name].(*ssa.Global)
			if !ok {
				continue
			}
			func() {
				defer func() {
					if r := recover(); r != nil {
						if _, isU := r.(unsupportedErr); !isU {
							panic(r)
						}
					}
				}()
				t := g.Type().(*types.Pointer).Elem()
				nv := f.freshVal("hv."+g.Name(), t)
				c.heap(f.st, globalName(g), c.sortOf(t))
				f.st.heaps[globalName(g)] = nv.S
			}()
		}
		return
	}
	if lv.whole {
		hn, hs := c.heapNameArr(lv.elemT)
		f.frameWrite(hn, fmt.Sprintf("(sbase %s)", lv.slice), f.curPos)
		h := c.heap(f.st, hn, hs)
		oldArr := fmt.Sprintf("(select %s (sbase %s))", h, lv.slice)
		na := c.fresh("hvarr", fmt.Sprintf("(Array %s %s)", c.idxSort(), c.sortOf(lv.elemT)))
		// outside the slice's capacity window nothing changes
		if c.mode == "bv" {
			c.assume(fmt.Sprintf("(forall ((k (_ BitVec 64))) (=> (not (and (bvule (xoff %s) k) (bvult k (bvadd (xoff %s) (xcap %s))))) (= (select %s k) (select %s k))))", lv.slice, lv.slice, lv.slice, na, oldArr))
		} else {
			c.assume(fmt.Sprintf("(forall ((k Int)) (=> (not (and (<= (xoff %s) k) (< k (+ (xoff %s) (xcap %s))))) (= (select %s k) (select %s k))))", lv.slice, lv.slice, lv.slice, na, oldArr))
		}
		f.st.heaps[hn] = c.bind(hn, fmt.Sprintf("(store %s (sbase %s) %s)", h, lv.slice, na), hs)
		return
	}
	if vf, ok := f.viewField(lv.path); ok {
		nv := f.freshVal("hv", vf.typ())
		vf.store(nv)
		return
	}
	f.frameWritePath(lv.path, f.curPos)
	nv := f.freshVal("hv", lv.t)
	if lv.path.Kind == rootCell && len(lv.path.Steps) == 0 {
		delete(f.st.ptrs, lv.path.Cell)
	}
	c.store(f.st, lv.path, nv.S)
}

func sortedMemberNames(p *ssa.Package) []string {
	var ns []string
	for n := range p.Members {
		ns = append(ns, n)
	}
	sort.Strings(ns)
	return ns
}

// ---------- builtins ----------

func (f *Frame) execBuiltin(b *ssa.Builtin, cc *ssa.CallCommon, pos token.Pos, args []Val) Val {
	c := f.c
	I := types.Typ[types.Int]
	idx2int := func(t string) string { return t } // index sort == sort of int in both modes
	switch b.Name() {
	case "len", "cap":
		v := args[0]
		switch u := v.T.Underlying().(type) {
		case *types.Basic:
			return Val{T: I, S: idx2int(fmt.Sprintf("(slen %s)", v.S))}
		case *types.Slice:
			if b.Name() == "len" {
				return Val{T: I, S: idx2int(fmt.Sprintf("(xlen %s)", v.S))}
			}
			return Val{T: I, S: idx2int(fmt.Sprintf("(xcap %s)", v.S))}
		case *types.Array:
			return Val{T: I, S: c.idxLit(u.Len())}
		case *types.Pointer:
			if at, ok := u.Elem().Underlying().(*types.Array); ok {
				return Val{T: I, S: c.idxLit(at.Len())}
			}
		case *types.Map:
			if m, ok := c.mapModelOf(v.T); ok {
				l := c.mapLen(f.st, m, v.S)
				if c.mode == "int" {
					c.assume(fmt.Sprintf("(<= 0 %s)", l))
				}
				return Val{T: I, S: l}
			}
			c.note("len(map) abstracted")
			r := c.fresh("maplen", c.sortOf(I))
			if c.mode == "int" {
				c.assume(fmt.Sprintf("(<= 0 %s)", r))
			}
			return Val{T: I, S: r}
		}
		panic(unsupported("len/cap of " + v.T.String()))
	case "append":
		return f.execAppend(cc, pos, args)
	case "copy":
		return f.execCopy(cc, pos, args)
	case "print", "println":
		return Val{T: types.NewTuple()}
	case "min", "max":
		r := args[0]
		for _, a := range args[1:] {
			op := "<"
			if b.Name() == "max" {
				op = ">"
			}
			r = Val{T: r.T, S: ite(c.cmp(op, a.S, r.S, r.T), a.S, r.S)}
		}
		return r
	case "delete":
		if f.execMapDelete(args[0], args[1], pos) {
			return Val{T: types.NewTuple()}
		}
		c.note("map delete abstracted")
		return Val{T: types.NewTuple()}
	case "ssa:wrapnilchk":
		f.oblige("nil", "wrapnilchk", fmt.Sprintf("(not (= %s 0))", f.ptrTerm(args[0])), pos, nil, "nil receiver in wrapper")
		return args[0]
	case "ssa:deferstack":
		return Val{T: cc.Value.Type(), S: "0"}
	case "recover":
		c.note("recover() returns nil (panics are proved absent, not caught)")
		return Val{T: types.NewInterfaceType(nil, nil), S: "0"}
	}
	panic(unsupported("builtin " + b.Name()))
}

func (f *Frame) execAppend(cc *ssa.CallCommon, pos token.Pos, args []Val) Val {
	c := f.c
	s := args[0]
	st := s.T.Underlying().(*types.Slice)
	var n string // number of appended elements
	var src Val
	srcIsString := false
	if len(args) < 2 {
		return s
	}
	src = args[1]
	if isString(src.T) {
		srcIsString = true
		n = fmt.Sprintf("(slen %s)", src.S)
	} else {
		n = fmt.Sprintf("(xlen %s)", src.S)
	}
	hn, hs := c.heapNameArr(st.Elem())
	h := c.heap(f.st, hn, hs)
	res := c.fresh("app", "Slice")
	c.assume(c.sliceInv(res))
	newLen := c.idxAdd(fmt.Sprintf("(xlen %s)", s.S), n)
	fits := c.idxLe(newLen, fmt.Sprintf("(xcap %s)", s.S))
	nb := c.fresh("appbase", "Int")
	f.assumeFresh(nb)
	// result header
	c.assume(fmt.Sprintf("(= (xlen %s) %s)", res, newLen))
	c.assume(fmt.Sprintf("(ite %s (and (= (sbase %s) (sbase %s)) (= (xoff %s) (xoff %s)) (= (xcap %s) (xcap %s))) (and (= (sbase %s) %s) (= (xoff %s) %s) %s))",
		fits, res, s.S, res, s.S, res, s.S, res, nb, res, c.idxLit(0), c.idxLe(newLen, fmt.Sprintf("(xcap %s)", res))))
	// new array contents
	na := c.fresh("apparr", fmt.Sprintf("(Array %s %s)", c.idxSort(), c.sortOf(st.Elem())))
	oldArr := fmt.Sprintf("(select %s (sbase %s))", h, s.S)
	var srcAt func(k string) string
	if srcIsString {
		srcAt = func(k string) string {
			return fmt.Sprintf("(select (sarr %s) %s)", src.S, c.idxAdd(fmt.Sprintf("(soff %s)", src.S), k))
		}
	} else {
		srcArr := fmt.Sprintf("(select %s (sbase %s))", h, src.S)
		srcAt = func(k string) string {
			return fmt.Sprintf("(select %s %s)", srcArr, c.idxAdd(fmt.Sprintf("(xoff %s)", src.S), k))
		}
	}
	J := "j!app"
	ksort := c.idxSort()
	roff := fmt.Sprintf("(xoff %s)", res)
	mid := c.idxAdd(roff, fmt.Sprintf("(xlen %s)", s.S))
	end := c.idxAdd(mid, n)
	// by absolute position: old prefix, appended elements; when appending in place everything else is unchanged
	c.assume(fmt.Sprintf("(forall ((%s %s)) (! (and (=> (and %s %s) (= (select %s %s) (select %s %s))) (=> (and %s %s) (= (select %s %s) %s)) (=> (and %s (not (and %s %s))) (= (select %s %s) (select %s %s)))) :pattern ((select %s %s))))",
		J, ksort,
		c.idxLe(roff, J), c.idxLt(J, mid), na, J, oldArr, c.idxAdd(c.idxSub(J, roff), fmt.Sprintf("(xoff %s)", s.S)),
		c.idxLe(mid, J), c.idxLt(J, end), na, J, srcAt(c.idxSub(J, mid)),
		fits, c.idxLe(roff, J), c.idxLt(J, end), na, J, oldArr, J,
		na, J))
	if c.wantText && isByteSlice(s.T) {
		// the same facts at the level of texts (consequences of the byte-level ones):
		// the appended part is the text of the source; every part of the old prefix keeps its text
		c.sortOf(textType)
		c.declStrEq()
		c.decl("fn:txt", "(declare-fun txt (Str) Txt)")
		c.decl("ax:txt", "(assert (forall ((a!t Str) (b!t Str)) (! (= (streq a!t b!t) (= (txt a!t) (txt b!t))) :pattern ((txt a!t) (txt b!t)))))")
		var srcTxt string
		if srcIsString {
			srcTxt = fmt.Sprintf("(txt (mkstr (sarr %s) (soff %s) (slen %s) 0))", src.S, src.S, src.S)
		} else {
			srcTxt = fmt.Sprintf("(txt (mkstr (select %s (sbase %s)) (xoff %s) (xlen %s) 0))", h, src.S, src.S, src.S)
		}
		c.assume(fmt.Sprintf("(= (txt (mkstr %s %s %s 0)) %s)", na, mid, n, srcTxt))
		c.assume(fmt.Sprintf("(forall ((lo!app %s) (n!app %s)) (! (=> (and %s %s %s) (= (txt (mkstr %s lo!app n!app 0)) (txt (mkstr %s %s n!app 0)))) :pattern ((txt (mkstr %s lo!app n!app 0)))))",
			ksort, ksort, c.idxLe(roff, "lo!app"), c.idxLe(c.idxLit(0), "n!app"), c.idxLe(c.idxAdd("lo!app", "n!app"), mid),
			na, oldArr, c.idxAdd(c.idxSub("lo!app", roff), fmt.Sprintf("(xoff %s)", s.S)), na))
	}
	f.frameWrite(hn, fmt.Sprintf("(sbase %s)", res), pos)
	f.st.heaps[hn] = c.bind(hn, fmt.Sprintf("(store %s (sbase %s) %s)", h, res, na), hs)
	return Val{T: s.T, S: res}
}

func (f *Frame) execCopy(cc *ssa.CallCommon, pos token.Pos, args []Val) Val {
	c := f.c
	dst, src := args[0], args[1]
	dt := dst.T.Underlying().(*types.Slice)
	hn, hs := c.heapNameArr(dt.Elem())
	h := c.heap(f.st, hn, hs)
	var sl string
	var srcAt func(k string) string
	if isString(src.T) {
		sl = fmt.Sprintf("(slen %s)", src.S)
		srcAt = func(k string) string {
			return fmt.Sprintf("(select (sarr %s) %s)", src.S, c.idxAdd(fmt.Sprintf("(soff %s)", src.S), k))
		}
	} else {
		sl = fmt.Sprintf("(xlen %s)", src.S)
		srcArr := fmt.Sprintf("(select %s (sbase %s))", h, src.S)
		srcAt = func(k string) string {
			return fmt.Sprintf("(select %s %s)", srcArr, c.idxAdd(fmt.Sprintf("(xoff %s)", src.S), k))
		}
	}
	f.frameWrite(hn, fmt.Sprintf("(sbase %s)", dst.S), pos)
	dl := fmt.Sprintf("(xlen %s)", dst.S)
	n := c.bind("copyn", ite(c.idxLt(sl, dl), sl, dl), c.idxSort())
	na := c.fresh("cparr", fmt.Sprintf("(Array %s %s)", c.idxSort(), c.sortOf(dt.Elem())))
	oldArr := fmt.Sprintf("(select %s (sbase %s))", h, dst.S)
	// every element of the new array, by absolute position (robust trigger: any read of the new array)
	J := "j!cp"
	lo := fmt.Sprintf("(xoff %s)", dst.S)
	hi := c.idxAdd(lo, n)
	c.assume(fmt.Sprintf("(forall ((%s %s)) (! (= (select %s %s) (ite (and %s %s) %s (select %s %s))) :pattern ((select %s %s))))", J, c.idxSort(),
		na, J, c.idxLe(lo, J), c.idxLt(J, hi), srcAt(c.idxSub(J, lo)), oldArr, J, na, J))
	f.st.heaps[hn] = c.bind(hn, fmt.Sprintf("(store %s (sbase %s) %s)", h, dst.S, na), hs)
	return Val{T: types.Typ[types.Int], S: n}
}

// ---------- intrinsics (runtime / sync / atomic / unsafe helpers modelled directly) ----------

func (f *Frame) intrinsic(name string, callee *ssa.Function, args []Val, pos token.Pos) (Val, bool) {
	c := f.c
	unit := Val{T: types.NewTuple()}
	switch name {
	case "runtime.KeepAlive":
		return unit, true
	case "github.com/bytedance/sonic/internal/rt.Mem2Str":
		// string header over the slice's memory: modelled as a snapshot of the bytes
		c.note("rt.Mem2Str modelled as a snapshot of the slice contents (the aliasing string is assumed not to be read after the bytes change)")
		hn, hs := c.heapNameArr(types.Typ[types.Uint8])
		v := args[0]
		arr := fmt.Sprintf("(select %s (sbase %s))", c.heap(f.st, hn, hs), v.S)
		return Val{T: types.Typ[types.String], S: c.bind("mem2str", fmt.Sprintf("(mkstr %s (xoff %s) (xlen %s) (sbase %s))", arr, v.S, v.S, v.S), "Str")}, true
	case "github.com/bytedance/sonic/internal/rt.Str2Mem":
		// slice header over the string's memory: the string's own buffer when it is a view of one,
		// otherwise (immutable string data) a read-only array modelled as a new array with the same contents
		c.note("rt.Str2Mem modelled as a slice over a copy of immutable string data (or over the buffer the string is a view of)")
		s := args[0]
		nb := c.fresh("str2mem", "Int")
		f.assumeFresh(nb)
		hn, hs := c.heapNameArr(types.Typ[types.Uint8])
		h := c.heap(f.st, hn, hs)
		f.st.heaps[hn] = c.bind(hn, fmt.Sprintf("(store %s %s (sarr %s))", h, nb, s.S), hs)
		base := fmt.Sprintf("(ite (= (sown %s) 0) %s (sown %s))", s.S, nb, s.S)
		return Val{T: callee.Signature.Results().At(0).Type(), S: c.bind("str2mem", fmt.Sprintf("(mkslice %s (soff %s) (slen %s) (slen %s))", base, s.S, s.S, s.S), "Slice")}, true
	case "github.com/bytedance/sonic/internal/rt.NoEscape":
		return args[0], true
	case "math.IsInf": // IsInf(f, sign): sign > 0 +Inf, sign < 0 -Inf, sign == 0 either
		x, sg := args[0].S, args[1].S
		zero := c.intLit2(0, args[1].T)
		gt, lt := "(> "+sg+" "+zero+")", "(< "+sg+" "+zero+")"
		if c.mode == "bv" {
			gt, lt = "(bvsgt "+sg+" "+zero+")", "(bvslt "+sg+" "+zero+")"
		}
		return Val{T: types.Typ[types.Bool], S: fmt.Sprintf("(and (fp.isInfinite %s) (ite %s (fp.isPositive %s) (ite %s (fp.isNegative %s) true)))", x, gt, x, lt, x)}, true
	case "math.Signbit": // sign bit of an IEEE double (true for -0 and negative NaN as well)
		nd := c.fresh("nansign", "Bool") // the sign of a NaN is not modelled
		return Val{T: types.Typ[types.Bool], S: fmt.Sprintf("(ite (fp.isNaN %s) %s (fp.isNegative %s))", args[0].S, nd, args[0].S)}, true
	case "sync/atomic.LoadPointer", "sync/atomic.LoadUint64", "sync/atomic.LoadInt64", "sync/atomic.LoadUint32", "sync/atomic.LoadInt32", "sync/atomic.LoadUintptr":
		c.note("sync/atomic operations modelled with sequentially consistent single-thread semantics")
		if len(args[0].Alts) > 0 {
			return f.loadAlts(f.derefAlts(args[0], pos, "atomic.Load"), callee.Signature.Results().At(0).Type()), true
		}
		p := f.ptrPath(args[0], pos, "atomic.Load")
		return f.loadVal(p, callee.Signature.Results().At(0).Type()), true
	case "sync/atomic.StorePointer", "sync/atomic.StoreUint64", "sync/atomic.StoreInt64", "sync/atomic.StoreUint32", "sync/atomic.StoreInt32", "sync/atomic.StoreUintptr":
		c.note("sync/atomic operations modelled with sequentially consistent single-thread semantics")
		p := f.ptrPath(args[0], pos, "atomic.Store")
		f.storeVal(p, args[1])
		return unit, true
	case "sync/atomic.AddUint64", "sync/atomic.AddInt64", "sync/atomic.AddUint32", "sync/atomic.AddInt32":
		c.note("sync/atomic operations modelled with sequentially consistent single-thread semantics")
		p := f.ptrPath(args[0], pos, "atomic.Add")
		t := callee.Signature.Results().At(0).Type()
		old := f.loadVal(p, t)
		term, side, _ := c.arith("+", old.S, args[1].S, t, t)
		if side != "" && side != "true" && c.mode == "int" {
			f.oblige("overflow", "atomic.Add", side, pos, nil, "integer overflow in atomic add")
		}
		nv := Val{T: t, S: c.bind("atomicadd", term, c.sortOf(t))}
		f.storeVal(p, nv)
		return nv, true
	}
	return Val{}, false
}

// ---------- views: *[]T seen as *GoSlice, *string seen as *GoString ----------

type viewField struct {
	f     *Frame
	st    *State
	base  *Path // path to the natural slice/string location
	kind  string
	field int
	vt    types.Type // field type in the view struct
}

func (f *Frame) viewField(p *Path) (viewField, bool) { return f.viewFieldIn(p, f.st) }

func (f *Frame) viewFieldIn(p *Path, st *State) (viewField, bool) {
	if len(p.Steps) == 0 {
		return viewField{}, false
	}
	last := p.Steps[len(p.Steps)-1]
	if last.IsIdx {
		return viewField{}, false
	}
	base := *p
	base.Steps = p.Steps[:len(p.Steps)-1]
	base.View = nil
	nat := f.c.naturalType(&base)
	if p.View == nil {
		// a genuine GoSlice / GoString location: a field access is a component of the header value
		var vs *types.Struct
		k := ""
		if isGoSliceLike(nat) {
			k, vs = "slice", nat.Underlying().(*types.Struct)
		} else if isGoStringLike(nat) {
			k, vs = "string", nat.Underlying().(*types.Struct)
		} else {
			return viewField{}, false
		}
		return viewField{f: f, st: st, base: &base, kind: k, field: last.Field, vt: vs.Field(last.Field).Type()}, true
	}
	k := viewKind(nat, p.View)
	if k == "" {
		panic(unsupported(fmt.Sprintf("reinterpretation of %s as %s", nat, p.View)))
	}
	vs := p.View.Underlying().(*types.Struct)
	return viewField{f: f, st: st, base: &base, kind: k, field: last.Field, vt: vs.Field(last.Field).Type()}, true
}

func (v viewField) typ() types.Type { return v.vt }

func (v viewField) load() Val {
	c := v.f.c
	cur := c.load(v.st, v.base)
	switch v.kind {
	case "slice":
		switch v.field {
		case 0:
			var et types.Type = types.Typ[types.Uint8]
			if sl, ok := c.naturalType(v.base).Underlying().(*types.Slice); ok {
				et = sl.Elem()
			}
			off := fmt.Sprintf("(xoff %s)", cur)
			return Val{T: v.vt, P: &Path{Kind: rootArr, T: et, Ref: fmt.Sprintf("(sbase %s)", cur), Steps: []Step{{IsIdx: true, Idx: off, Raw: true}},
				Lo: off, Hi: c.idxAdd(off, fmt.Sprintf("(xcap %s)", cur))}}
		case 1:
			return Val{T: v.vt, S: fmt.Sprintf("(xlen %s)", cur)}
		case 2:
			return Val{T: v.vt, S: fmt.Sprintf("(xcap %s)", cur)}
		}
	case "string":
		switch v.field {
		case 0:
			off := fmt.Sprintf("(soff %s)", cur)
			return Val{T: v.vt, P: &Path{Kind: rootStrArr, Ref: fmt.Sprintf("(sarr %s)", cur), Steps: []Step{{IsIdx: true, Idx: off, Raw: true}},
				Lo: off, Hi: c.idxAdd(off, fmt.Sprintf("(slen %s)", cur))}}
		case 1:
			return Val{T: v.vt, S: fmt.Sprintf("(slen %s)", cur)}
		}
	}
	panic(unsupported("view field"))
}

func (v viewField) store(x Val) {
	c := v.f.c
	v.f.frameWritePath(v.base, v.f.curPos)
	cur := c.load(v.st, v.base)
	switch v.kind {
	case "slice":
		switch v.field {
		case 1:
			c.store(v.st, v.base, fmt.Sprintf("(mkslice (sbase %s) (xoff %s) %s (xcap %s))", cur, cur, x.S, cur))
			return
		case 2:
			c.store(v.st, v.base, fmt.Sprintf("(mkslice (sbase %s) (xoff %s) (xlen %s) %s)", cur, cur, cur, x.S))
			return
		case 0:
			if x.P != nil && x.P.Kind == rootArr && len(x.P.Steps) == 1 {
				c.store(v.st, v.base, fmt.Sprintf("(mkslice %s %s (xlen %s) (xcap %s))", x.P.Ref, x.P.Steps[0].Idx, cur, cur))
				return
			}
		}
	}
	panic(unsupported("store to view field"))
}
