package main

// Loading /repo (current working tree), building SSA, reading contract files,
// verifying one function under contract.

import (
	"fmt"
	"go/ast"
	"go/types"
	"os"
	"path/filepath"
	"runtime/debug"
	"sort"
	"strings"
	"sync"

	"golang.org/x/tools/go/packages"
	"golang.org/x/tools/go/ssa"
	"golang.org/x/tools/go/ssa/ssautil"
)

// repoDir is the tree under verification: /repo for every registered check; the
// seeded-change and self-test tools point it at a scratch worktree (GOWP_REPO).
var repoDir = func() string {
	if d := os.Getenv("GOWP_REPO"); d != "" {
		return d
	}
	return "/repo"
}()
const contractFileName = "zz_verif_contracts.go"

type Engine struct {
	cfgMu     sync.Mutex
	cfgCache  map[*ssa.Global]*ssa.Function
	prog      *ssa.Program
	pkgs      []*packages.Package
	ssaPkgs   map[string]*ssa.Package
	contracts map[string]*FuncContract // pkgpath::key
	byKey     map[string]*FuncContract // iface:... keys
	pures     map[string]*PureFunc     // pkgpath::name
	pureAny   map[string][]*PureFunc
	files     []*ContractFile
	sizes     types.Sizes
	mu        sync.Mutex
	typeIDs   map[string]int
	loadSecs  float64
	known     map[string]*knownFinding // by obligation name
	ghosts    map[string]string        // ghost variable name -> type name
}

func (e *Engine) typeID(t types.Type) int {
	e.mu.Lock()
	defer e.mu.Unlock()
	k := canonType(types.TypeString(t, nil))
	if id, ok := e.typeIDs[k]; ok {
		return id
	}
	id := len(e.typeIDs) + 1
	e.typeIDs[k] = id
	return id
}

func (e *Engine) ssaPkg(path string) *ssa.Package { return e.ssaPkgs[path] }

func (e *Engine) pure(pkgPath, name string) *PureFunc {
	if pf, ok := e.pures[pkgPath+"::"+name]; ok {
		return pf
	}
	if i := strings.Index(name, "."); i >= 0 {
		pn, fn := name[:i], name[i+1:]
		for _, pf := range e.pureAny[fn] {
			if pf.Pkg[strings.LastIndex(pf.Pkg, "/")+1:] == pn {
				return pf
			}
		}
		return nil
	}
	if l := e.pureAny[name]; len(l) == 1 {
		return l[0]
	}
	return nil
}

func (e *Engine) contractByKey(key string) *FuncContract { return e.byKey[key] }

func normKey(k string) string {
	// "Config.Froze" -> "(Config).Froze"; "(*T).m" stays
	if strings.HasPrefix(k, "(") || !strings.Contains(k, ".") || strings.HasPrefix(k, "iface:") {
		return k
	}
	i := strings.LastIndex(k, ".")
	return "(" + k[:i] + ")." + k[i+1:]
}

func (e *Engine) contractFor(fn *ssa.Function) *FuncContract {
	pkg := fn.Pkg
	if pkg == nil {
		if fn.Parent() != nil {
			pkg = fn.Parent().Pkg
		} else if o := fn.Object(); o != nil && o.Pkg() != nil {
			pkg = e.prog.Package(o.Pkg())
		}
	}
	if pkg == nil {
		return nil
	}
	key := fn.RelString(pkg.Pkg)
	return e.contracts[pkg.Pkg.Path()+"::"+key]
}

// findContractDirs lists package directories of /repo that contain a contract file.
func findContractDirs() ([]string, error) {
	var dirs []string
	err := filepath.Walk(repoDir, func(p string, info os.FileInfo, err error) error {
		if err != nil {
			return nil
		}
		if info.IsDir() && (info.Name() == ".git" || info.Name() == "testdata") {
			return filepath.SkipDir
		}
		if !info.IsDir() && info.Name() == contractFileName {
			dirs = append(dirs, filepath.Dir(p))
		}
		return nil
	})
	sort.Strings(dirs)
	return dirs, err
}

func loadEngine(only []string) (*Engine, error) {
	dirs, err := findContractDirs()
	if err != nil {
		return nil, err
	}
	if len(dirs) == 0 {
		return nil, fmt.Errorf("no %s files under %s", contractFileName, repoDir)
	}
	var patterns []string
	for _, d := range dirs {
		rel, _ := filepath.Rel(repoDir, d)
		patterns = append(patterns, "./"+rel)
	}
	env := append(os.Environ(), "GOFLAGS=", "GOPROXY=off", "GOSUMDB=off", "GOTOOLCHAIN=local", "GOWORK="+repoDir+"/go.work")
	cfg := &packages.Config{Mode: packages.LoadAllSyntax, Dir: repoDir, BuildFlags: []string{"-tags=verif"}, Env: env}
	pkgs, err := packages.Load(cfg, patterns...)
	if err != nil {
		return nil, err
	}
	var errs []string
	for _, p := range pkgs {
		for _, er := range p.Errors {
			errs = append(errs, er.Error())
		}
	}
	if len(errs) > 0 {
		return nil, fmt.Errorf("package errors (the tree does not compile):\n%s", strings.Join(errs, "\n"))
	}
	prog, spkgs := ssautil.AllPackages(pkgs, ssa.NaiveForm|ssa.GlobalDebug)
	prog.Build()
	e := &Engine{prog: prog, pkgs: pkgs, ssaPkgs: map[string]*ssa.Package{}, contracts: map[string]*FuncContract{},
		byKey: map[string]*FuncContract{}, pures: map[string]*PureFunc{}, pureAny: map[string][]*PureFunc{}, typeIDs: map[string]int{}, ghosts: map[string]string{},
		sizes: types.SizesFor("gc", "amd64")}
	for _, sp := range prog.AllPackages() {
		e.ssaPkgs[sp.Pkg.Path()] = sp
	}
	_ = spkgs
	for _, p := range pkgs {
		for _, f := range p.Syntax {
			fname := p.Fset.Position(f.Pos()).Filename
			if filepath.Base(fname) != contractFileName {
				continue
			}
			cf, err := readContractFile(p, f, fname)
			if err != nil {
				return nil, err
			}
			e.files = append(e.files, cf)
			for _, fc := range cf.Funcs {
				k := normKey(fc.Key)
				fc.Key = k
				if strings.HasPrefix(k, "iface:") {
					e.byKey[k] = fc
					continue
				}
				e.contracts[p.PkgPath+"::"+k] = fc
			}
			for _, pf := range cf.Pures {
				e.pures[p.PkgPath+"::"+pf.Name] = pf
				e.pureAny[pf.Name] = append(e.pureAny[pf.Name], pf)
			}
		}
	}
	// assumed contracts of standard-library functions and interface methods: /verif/specs/*.spec
	specs, _ := filepath.Glob(filepath.Join(verifDir, "specs", "*.spec"))
	sort.Strings(specs)
	for _, sf := range specs {
		b, err := os.ReadFile(sf)
		if err != nil {
			return nil, err
		}
		var cur string
		var lines []rawLine
		flush := func() error {
			if cur == "" || len(lines) == 0 {
				lines = nil
				return nil
			}
			cf, err := parseContractLines(cur, strings.TrimPrefix(sf, verifDir+"/"), lines)
			if err != nil {
				return err
			}
			e.files = append(e.files, cf)
			for _, g := range cf.Ghosts {
				e.ghosts[g.Name] = g.Type
			}
			for _, fc := range cf.Funcs {
				fc.Assumed = true
				if fc.Trusted == "" {
					fc.Trusted = "standard library / interface contract (documented behaviour)"
				}
				k := normKey(fc.Key)
				fc.Key = k
				if strings.HasPrefix(k, "iface:") {
					e.byKey[k] = fc
					continue
				}
				e.contracts[cur+"::"+k] = fc
			}
			for _, pf := range cf.Pures {
				e.pures[cur+"::"+pf.Name] = pf
				e.pureAny[pf.Name] = append(e.pureAny[pf.Name], pf)
			}
			lines = nil
			return nil
		}
		for i, l := range strings.Split(string(b), "\n") {
			t := strings.TrimSpace(l)
			if strings.HasPrefix(t, "package ") {
				if err := flush(); err != nil {
					return nil, err
				}
				cur = strings.TrimSpace(t[len("package "):])
				continue
			}
			if strings.HasPrefix(t, "//") {
				continue
			}
			lines = append(lines, rawLine{l, i + 1})
		}
		if err := flush(); err != nil {
			return nil, err
		}
	}
	return e, nil
}

func readContractFile(p *packages.Package, f *ast.File, fname string) (*ContractFile, error) {
	var lines []rawLine
	for _, cg := range f.Comments {
		for _, cm := range cg.List {
			t := cm.Text
			if strings.HasPrefix(t, "//@") {
				lines = append(lines, rawLine{t[3:], p.Fset.Position(cm.Pos()).Line})
			}
		}
	}
	return parseContractLines(p.PkgPath, strings.TrimPrefix(fname, repoDir+"/"), lines)
}

// lookupFunc finds the SSA function for a contract key in a package.
func (e *Engine) lookupFunc(pkgPath, key string) *ssa.Function {
	sp := e.ssaPkgs[pkgPath]
	if sp == nil {
		return nil
	}
	if !strings.HasPrefix(key, "(") {
		return sp.Func(key)
	}
	// (T).m or (*T).m
	i := strings.Index(key, ").")
	if i < 0 {
		return nil
	}
	recv, m := key[1:i], key[i+2:]
	ptr := strings.HasPrefix(recv, "*")
	recv = strings.TrimPrefix(recv, "*")
	tn, ok := sp.Pkg.Scope().Lookup(recv).(*types.TypeName)
	if !ok {
		return nil
	}
	var t types.Type = tn.Type()
	if ptr {
		t = types.NewPointer(t)
	}
	sel := e.prog.MethodSets.MethodSet(t).Lookup(sp.Pkg, m)
	if sel == nil {
		return nil
	}
	fn := e.prog.MethodValue(sel)
	// value-receiver method looked up through pointer gives a wrapper; want the declared one
	if fn != nil && fn.Synthetic != "" && !ptr {
		return fn
	}
	return fn
}

type FuncResult struct {
	Contract *FuncContract
	Obls     []*Obligation
	Err      error // unsupported construct / contract error
	ErrKind  string
	Notes    []string
	Inlined  []string
	Assumed  []string
	Mode     string
}

// verifyFunc generates the obligations of one function under contract.
func (e *Engine) verifyFunc(fc *FuncContract) (res *FuncResult) {
	res = &FuncResult{Contract: fc, Mode: fc.Mode}
	fn := e.lookupFunc(fc.Pkg, fc.Key)
	if fn == nil {
		res.Err = fmt.Errorf("contract out of date: function %s not found in %s", fc.Key, fc.Pkg)
		res.ErrKind = "stale"
		return
	}
	defer func() {
		if r := recover(); r != nil {
			switch x := r.(type) {
			case unsupportedErr:
				res.Err, res.ErrKind = x, "unsupported"
			case specErr:
				if os.Getenv("GOWP_TRACE") != "" {
					fmt.Fprintf(os.Stderr, "%s\n", debug.Stack())
				}
				res.Err, res.ErrKind = fmt.Errorf("%s.%s: %v", fc.Pkg, fc.Key, x), "stale"
			case contractErr:
				res.Err, res.ErrKind = x, "stale"
			default:
				panic(r)
			}
		}
	}()
	hv := map[*ssa.BasicBlock]map[string]bool{}
	heapSorts := map[string]string{}
	short := fc.Pkg[strings.LastIndex(fc.Pkg, "/")+1:] + "." + fc.Key
	for pass := 0; pass < 12; pass++ {
		c := newCtx(e, fc.Mode)
		c.wraps = fc.Wraps
		c.wantText = fc.TextOps && contractMentionsText(fc)
		c.fnName = short
		for k, v := range heapSorts {
			c.heapSorts[k] = v
		}
		f := e.newFrame(c, fn, fc)
		f.top = true
		f.hv = hv
		st := newState()
		c.declClock()
		for _, p := range fn.Params {
			name := "p." + sanitize(p.Name())
			c.decls = append(c.decls, fmt.Sprintf("(declare-const %s %s)", name, c.sortOf(p.Type())))
			v := Val{T: p.Type(), S: name}
			c.assume(c.typeInv(name, p.Type()))
			if isPointer(p.Type()) {
				c.assume(fmt.Sprintf("(=> (not (= %s 0)) (alive0 %s))", name, name))
			}
			if _, isSl := p.Type().Underlying().(*types.Slice); isSl {
				c.assume(fmt.Sprintf("(=> (not (= (sbase %s) 0)) (alive0 (sbase %s)))", name, name))
			}
			f.vals[p] = v
			f.params[p.Name()] = v
		}
		// axioms of the package's contract file (assumptions; listed in the evidence)
		// ... plus those of directly imported packages whose spec functions this contract mentions
		for _, cf := range e.files {
			apkg := fn.Pkg
			if cf.Pkg != fc.Pkg {
				if len(cf.Axioms) == 0 || !e.mentionsPure(fc, fn, cf) {
					continue
				}
				if apkg = e.ssaPkg(cf.Pkg); apkg == nil {
					continue
				}
			}
			for _, ax := range cf.Axioms {
				if ax.Mode != "" && ax.Mode != fc.Mode {
					continue
				}
				aenv := &SpecEnv{c: c, vars: map[string]Val{}, pkg: apkg}
				c.assume(aenv.evalBool(ax.Expr))
				c.used[fmt.Sprintf("axiom %s.%s: %s", cf.Pkg[strings.LastIndex(cf.Pkg, "/")+1:], ax.Name, ax.Text)] = true
			}
		}
		f.entrySt = st.clone()
		env := f.specEnv(st, st, false)
		for _, r := range fc.Requires {
			c.assume(env.evalBool(r.Expr))
		}
		nreq := len(c.decls)
		if !fc.ModAll {
			f.fspec = f.buildFrameSpec(f.specEnv(st, st, false), fc.Modifies, c.defaultHeap(0, nowHeap, "Int"))
		}
		f.loopBody = loopBodies(fn)
		f.run(st, "true")
		f.finish(nreq)
		for k, v := range c.heapSorts {
			heapSorts[k] = v
		}
		if !f.hvChanged {
			res.Obls = c.obls
			res.Notes = sortedKeys(c.notes)
			res.Inlined = sortedKeys(c.inlined)
			res.Assumed = sortedKeys(c.used)
			return
		}
	}
	res.Err = fmt.Errorf("loop modification analysis did not converge for %s", fc.Key)
	res.ErrKind = "unsupported"
	return
}

// finish: postconditions, frame and cover obligations at the return sites.
func (f *Frame) finish(nreq int) {
	c := f.c
	fc := f.fc
	sig := f.fn.Signature
	var conds []string
	for _, r := range f.rets {
		conds = append(conds, r.cond)
		f.reach = r.cond
		f.st = r.st
		env := f.specEnv(r.st, f.entrySt, false)
		for i := 0; i < sig.Results().Len(); i++ {
			rv := sig.Results().At(i)
			if rv.Name() != "" && rv.Name() != "_" {
				env.vars[rv.Name()] = r.vals[i]
			}
			env.vars[fmt.Sprintf("r%d", i)] = r.vals[i]
		}
		if len(r.vals) == 1 {
			env.vars["result"] = r.vals[0]
		}
		for _, w := range fc.Witness {
			wenv := f.specEnv(r.st, f.entrySt, true)
			wt := wenv.typeByName(w.Type)
			wv := wenv.eval(w.Expr, wt)
			if isInt(wt) && isInt(wv.T) && !isUntyped(wv.T) {
				wv = Val{T: wt, S: c.convInt(wv.S, wv.T, wt)}
			}
			wv.T = wt
			env.vars[w.Name] = wv
		}
		for i, as := range fc.Asserts {
			g := env.evalBool(as.Expr)
			f.oblige("assert", fmt.Sprint(i), g, r.pos, as.Props, as.Text)
			c.assume(implies(f.reach, g))
		}
		f.curEnv = env
		for i, en := range fc.Ensures {
			f.curClause = en
			parts := c.eng.splitConjDeep(fc.Pkg, en.Expr, 0)
			for j, pe := range parts {
				g := env.evalBool(pe)
				label, text := fmt.Sprint(i), en.Text
				if len(parts) > 1 {
					label, text = fmt.Sprintf("%d.%d", i, j), pe.String()
				}
				f.oblige("post", label, g, r.pos, en.Props, text)
			}
			f.curClause = nil
		}
		f.curEnv = nil
		f.frameCheck(r, env)
	}
	// cover: some return is reachable under all assumptions (vacuity guard)
	if len(f.rets) > 0 {
		o := &Obligation{Name: c.fnName + ".cover", Kind: "cover", Props: append([]string{}, fc.Props...), Func: c.fnName,
			Pos: f.pos(f.fn.Pos()), NDefs: len(c.decls), Goal: not(or(conds...)), Text: "some return is reachable (assumptions are consistent)", ctx: c, ExpectSat: true}
		c.obls = append(c.obls, o)
	}
}

func (f *Frame) frameCheck(r retInfo, env *SpecEnv) {
	// individual writes are checked where they happen (frame.go); a call without any contract may write anything
	if r.st.hid != 0 && !(f.fc != nil && f.fc.ModAll) {
		f.oblige("frame", "all", "false", r.pos, nil, "a call without contract may have modified anything; the function needs contracts on its callees")
	}
}

func sortedKeysS(m map[string]string) []string {
	var ks []string
	for k := range m {
		ks = append(ks, k)
	}
	sort.Strings(ks)
	return ks
}

// canonType: byte/uint8 and rune/int32 are the same types.
func canonType(s string) string {
	r := strings.NewReplacer("[]byte", "[]uint8", "*byte", "*uint8", "]byte", "]uint8", "[]rune", "[]int32")
	s = r.Replace(s)
	if s == "byte" {
		return "uint8"
	}
	if s == "rune" {
		return "int32"
	}
	return s
}

// splitConj splits a contract clause into its top-level conjuncts (also under a
// common implication premise: A ==> (B && C) gives A ==> B, A ==> C), so that
// each becomes its own, smaller proof obligation.
func splitConj(x SExpr) []SExpr {
	switch n := x.(type) {
	case *SBinary:
		if n.Op == "&&" {
			return append(splitConj(n.X), splitConj(n.Y)...)
		}
		if n.Op == "==>" {
			var out []SExpr
			for _, c := range splitConj(n.Y) {
				out = append(out, &SBinary{"==>", n.X, c})
			}
			return out
		}
	}
	return []SExpr{x}
}

// mentionsPure: does the contract of fn (in a package importing cf's package) mention
// one of cf's spec functions (qualified by the import name)?
func (e *Engine) mentionsPure(fc *FuncContract, fn *ssa.Function, cf *ContractFile) bool {
	imported := ""
	for _, imp := range fn.Pkg.Pkg.Imports() {
		if imp.Path() == cf.Pkg {
			imported = imp.Name()
		}
	}
	if imported == "" {
		return false
	}
	var texts []string
	add := func(cs []*Clause) {
		for _, c := range cs {
			texts = append(texts, c.Text)
		}
	}
	add(fc.Requires)
	add(fc.Ensures)
	add(fc.Asserts)
	for _, ls := range fc.Loops {
		add(ls.Inv)
		add(ls.Asserts)
	}
	all := strings.Join(texts, "\n")
	for _, pf := range cf.Pures {
		if strings.Contains(all, pf.Name+"(") {
			return true
		}
	}
	return false
}

// contractMentionsText: does the contract use the text builtins?
func contractMentionsText(fc *FuncContract) bool {
	has := func(cs []*Clause) bool {
		for _, c := range cs {
			if strings.Contains(c.Text, "txt(") {
				return true
			}
		}
		return false
	}
	if has(fc.Requires) || has(fc.Ensures) || has(fc.Asserts) {
		return true
	}
	for _, ls := range fc.Loops {
		if has(ls.Inv) || has(ls.Asserts) {
			return true
		}
	}
	for _, as := range fc.After {
		if has(as) {
			return true
		}
	}
	return false
}
