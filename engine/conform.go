package main

// Bounded conformance harnesses (NOT proof): the pre-assembled native routines and the
// code the JIT emits are outside the reach of the contract verifier; the contracts of the
// native entry points are ASSUMED.  For the properties that rest on such an assumption a
// bounded harness (a Go test kept in /verif/conform, injected into the real package with
// `go test -overlay`, nothing written to /repo) runs the real machine code over an
// enumerated domain and compares it with the definition.  Its result is reported in the
// evidence under coverage.bounded_checks, labelled bounded, and is never added to the
// obligations/discharged counts.  A failing case is a violation with the failing input
// (the replay is the harness run itself); cases listed in KNOWN_FINDINGS.jsonl under the
// obligation name "conform:<case id>" are reported as KNOWN-FINDING.

import (
	"encoding/json"
	"fmt"
	"os"
	"os/exec"
	"path/filepath"
	"regexp"
	"sort"
	"strconv"
	"strings"
	"time"
)

type conformTest struct {
	Name string `json:"name"`
	// Props: the reference is the definition (encoding/json, strconv, unicode/utf8): every
	// failing case counts, in the first environment only unless AllEnvs is set.
	Props   []string `json:"props"`
	AllEnvs bool     `json:"all_envs"`
	// Equiv: property -> index of the environment that must behave exactly as the first
	// one (same failing cases with the same signatures, i.e. the same observable results;
	// a case both back ends get wrong in the same way is not a difference between them).
	Equiv map[string]int `json:"equiv"`
	// PrefixProps: failing cases whose id starts with one of these prefixes count for the
	// listed properties only (a harness that checks several things per input names the
	// thing in the case id: "ownership:", "unicode-errors:"); all other cases count for Props.
	PrefixProps map[string][]string `json:"prefix_props"`
	Bound string         `json:"bound"`
	What  string         `json:"what"`
}

type conformHarness struct {
	File  string        `json:"file"`
	Pkg   string        `json:"pkg"`
	Env   [][]string    `json:"env"` // one run per entry; each entry is a list of KEY=VALUE
	Tests []conformTest `json:"tests"`
}

type conformFailure struct {
	ID, Msg, Env string
	props        []string
}

type conformResult struct {
	Harness  string   `json:"harness"`
	Test     string   `json:"test"`
	Pkg      string   `json:"package"`
	Env      []string `json:"env"`
	Bound    string   `json:"bound"`
	What     string   `json:"what"`
	Cases int `json:"cases"`
	// RawLines: failing lines the harness printed in this run (every context of every
	// failing case, whatever property it belongs to); Failures: distinct failing cases
	// that count for the property being checked; of these Known are listed in
	// KNOWN_FINDINGS.jsonl and Violations are reported.
	RawLines   int    `json:"failing_lines_printed"`
	Failures   int    `json:"failing_cases_for_this_property"`
	Known      int    `json:"known_findings"`
	Violations int    `json:"violations"`
	Status     string `json:"harness_status"` // "pass" | "fail" (the harness printed failing lines) | "not-run"
	Secs     float64  `json:"seconds"`
	Label    string   `json:"label"`
	fails    []conformFailure // what counts for the property being checked
	all      []conformFailure // every failing line of this run
	props    []string
	output   string
}

var reConformFail = regexp.MustCompile(`(?m)^CONFORM-FAIL (\S.*?) :: (.*)$`)
var reConformStats = regexp.MustCompile(`(?m)^CONFORM-STATS test=(\S+) cases=(\d+)$`)

func loadConform() []conformHarness {
	b, err := os.ReadFile(filepath.Join(verifDir, "conform", "conform.json"))
	if err != nil {
		return nil
	}
	var hs []conformHarness
	if err := json.Unmarshal(b, &hs); err != nil {
		fmt.Printf("conform.json: %v\n", err)
		return nil
	}
	return hs
}

// runConform runs every harness test registered for prop (all of them for ALL).
func runConform(prop string) []*conformResult {
	var out []*conformResult
	for _, h := range loadConform() {
		envs := h.Env
		if len(envs) == 0 {
			envs = [][]string{{}}
		}
		var names []string
		byName := map[string]conformTest{}
		needEnv := map[int]bool{}
		for _, t := range h.Tests {
			sel := false
			if prop == "ALL" || hasPropExact(t.Props, prop) {
				sel = true
				needEnv[0] = true
				if t.AllEnvs || prop == "ALL" {
					for i := range envs {
						needEnv[i] = true
					}
				}
			}
			for _, ps := range t.PrefixProps {
				if hasPropExact(ps, prop) {
					sel = true
					needEnv[0] = true
				}
			}
			if k, ok := t.Equiv[prop]; ok && k < len(envs) {
				sel = true
				needEnv[0], needEnv[k] = true, true
			}
			if sel {
				names = append(names, t.Name)
				byName[t.Name] = t
			}
		}
		if len(names) == 0 {
			continue
		}
		if prop == "ALL" {
			if pk := os.Getenv("GOWP_PKGS"); pk != "" && !conformRelevant(h, pk) {
				continue
			}
		}
		var perEnv [][]*conformResult
		for ei, env := range envs {
			if !needEnv[ei] {
				perEnv = append(perEnv, nil)
				continue
			}
			start := time.Now()
			outp, ran := runConformTest(h, names, env)
			secs := time.Since(start).Seconds()
			stats := map[string]int{}
			for _, m := range reConformStats.FindAllStringSubmatch(outp, -1) {
				n, _ := strconv.Atoi(m[2])
				stats[m[1]] = n
			}
			sections := splitByRun(outp)
			for _, n := range names {
				t := byName[n]
				r := &conformResult{Harness: h.File, Test: n, Pkg: h.Pkg, Env: env, Bound: t.Bound, What: t.What, Secs: round2(secs / float64(len(names))),
					Label: "bounded (not proof; not counted in obligations/discharged)", output: outp}
				short := strings.TrimPrefix(n, "TestVerifConform_")
				c, haveStats := stats[short]
				r.Cases = c
				sec, started := sections[n]
				failedTest := strings.Contains(outp, "--- FAIL: "+n)
				crashed := started && !haveStats && (strings.Contains(sec, "panic:") || strings.Contains(sec, "signal ") || strings.Contains(sec, "fatal error:"))
				switch {
				case !ran || !started:
					r.Status = "not-run"
				case failedTest || crashed:
					r.Status = "fail"
				case haveStats:
					r.Status = "pass"
				default:
					r.Status = "not-run"
				}
				out = append(out, r)
			}
			// attribute the failing cases: the case id starts with the routine name, the
			// test that produced it is the one whose FAIL line follows; with several tests
			// in one run every failing test gets the lines printed between its RUN and FAIL
			// markers (tests run sequentially, -v prints "=== RUN").
			for _, r := range out[len(out)-len(names):] {
				sec := sections[r.Test]
				for _, m := range reConformFail.FindAllStringSubmatch(sec, -1) {
					r.fails = append(r.fails, conformFailure{ID: m[1], Msg: m[2], Env: strings.Join(env, " ")})
				}
				r.all = append([]conformFailure{}, r.fails...)
				if r.Status == "fail" && len(r.fails) == 0 {
					msg := "the harness test crashed or failed without a case line"
					if i := strings.Index(sec, "panic:"); i >= 0 {
						msg = firstLine(sec[i:])
					} else if i := strings.Index(sec, "fatal error:"); i >= 0 {
						msg = firstLine(sec[i:])
					} else if i := strings.Index(sec, "signal "); i >= 0 {
						msg = firstLine(sec[i:])
					}
					r.fails = append(r.fails, conformFailure{ID: strings.TrimPrefix(r.Test, "TestVerifConform_") + ":crash", Msg: msg, Env: strings.Join(env, " ")})
				}
				r.Failures = len(r.fails)
			}
			perEnv = append(perEnv, out[len(out)-len(names):])
		}
		// which failing cases count for this property
		for ei, rs := range perEnv {
			for ti, r := range rs {
				t := byName[r.Test]
				var keep []conformFailure
				if ei == 0 || t.AllEnvs {
					for _, f := range r.fails {
						ps := t.Props
						for pre, pp := range t.PrefixProps {
							if strings.HasPrefix(f.ID, pre) {
								ps = pp
							}
						}
						if prop == "ALL" {
							f.props = ps
							keep = append(keep, f)
						} else if hasPropExact(ps, prop) {
							keep = append(keep, f)
						}
					}
				}
				r.fails = keep // (otherwise the run is only one side of a comparison)
				r.RawLines = len(r.all)
				r.Failures = len(r.fails)
				if prop == "ALL" {
					r.props = append(r.props, t.Props...)
				}
				if ei == 0 {
					continue
				}
				base := perEnv[0][ti]
				for p, k := range t.Equiv {
					if k != ei || !(prop == "ALL" || prop == p) || base.Status == "not-run" || r.Status == "not-run" {
						continue
					}
					diff := conformDiff(base, r)
					for i := range diff {
						diff[i].props = []string{p}
					}
					r.fails = append(r.fails, diff...)
				}
				r.Failures = len(r.fails)
			}
		}
	}
	return out
}

// conformRelevant: with GOWP_PKGS (seed matrix) a harness runs when one of the selected
// packages is the harness package, below it, or (for the root package harness, which
// drives the whole codec) any encoder/decoder/native package.
func conformRelevant(h conformHarness, pk string) bool {
	for _, s := range strings.Split(pk, ",") {
		if s == "" {
			continue
		}
		if s == h.Pkg || strings.HasPrefix(s, h.Pkg+"/") {
			return true
		}
		if h.Pkg == "." && (s == "sonic" || strings.Contains(s, "encoder") || strings.Contains(s, "decoder") || strings.Contains(s, "native") || strings.Contains(s, "internal/rt") || strings.Contains(s, "internal/caching") || strings.Contains(s, "internal/resolver") || s == "api" || s == "option" || s == "utf8" || s == "unquote" || s == "loader") {
			return true
		}
	}
	return false
}

// conformDiff: the failing lines (case id + signature, i.e. the message up to " -- ") that
// one environment prints and the other does not.
func conformDiff(a, b *conformResult) []conformFailure {
	sig := func(r *conformResult) map[string]string {
		m := map[string]string{}
		for _, f := range r.all {
			msg := f.Msg
			if i := strings.Index(msg, " -- "); i >= 0 {
				msg = msg[:i]
			}
			m[f.ID+" :: "+msg] = f.ID
		}
		return m
	}
	sa, sb := sig(a), sig(b)
	var out []conformFailure
	seen := map[string]bool{}
	add := func(line, id, where, other string) {
		if seen[id] {
			return
		}
		seen[id] = true
		out = append(out, conformFailure{ID: id, Msg: fmt.Sprintf("the back ends differ: under [%s] the harness reports \"%s\", under [%s] it does not", where, line, other), Env: where})
	}
	var keys []string
	for k := range sa {
		keys = append(keys, k)
	}
	for k := range sb {
		keys = append(keys, k)
	}
	sort.Strings(keys)
	ea, eb := strings.Join(a.Env, " "), strings.Join(b.Env, " ")
	for _, k := range keys {
		_, ina := sa[k]
		_, inb := sb[k]
		if ina && !inb {
			add(k, sa[k], ea, eb)
		} else if inb && !ina {
			add(k, sb[k], eb, ea)
		}
	}
	if a.Status == "pass" && b.Status == "pass" && a.Cases != b.Cases {
		out = append(out, conformFailure{ID: strings.TrimPrefix(a.Test, "TestVerifConform_") + ":case-count", Msg: fmt.Sprintf("%d cases under [%s], %d under [%s]", a.Cases, ea, b.Cases, eb), Env: eb})
	}
	return out
}

func firstLine(s string) string {
	if i := strings.IndexByte(s, '\n'); i >= 0 {
		return s[:i]
	}
	return s
}

func splitByRun(outp string) map[string]string {
	res := map[string]string{}
	cur := ""
	var sb strings.Builder
	flush := func() {
		if cur != "" {
			res[cur] += sb.String()
		}
		sb.Reset()
	}
	for _, ln := range strings.Split(outp, "\n") {
		if strings.HasPrefix(ln, "=== RUN   ") {
			flush()
			cur = strings.TrimSpace(strings.TrimPrefix(ln, "=== RUN   "))
			continue
		}
		sb.WriteString(ln)
		sb.WriteByte('\n')
	}
	flush()
	return res
}

func runConformTest(h conformHarness, names []string, env []string) (string, bool) {
	src := filepath.Join(verifDir, "conform", h.File)
	if _, err := os.Stat(src); err != nil {
		return err.Error(), false
	}
	tmp, err := os.MkdirTemp("", "gowp-conform-")
	if err != nil {
		return err.Error(), false
	}
	defer os.RemoveAll(tmp)
	ov := map[string]interface{}{"Replace": map[string]string{filepath.Join(repoDir, h.Pkg, "zz_verif_conform_test.go"): src}}
	ob, _ := json.Marshal(ov)
	ovf := filepath.Join(tmp, "overlay.json")
	os.WriteFile(ovf, ob, 0o644)
	sort.Strings(names)
	cmd := exec.Command("go", "test", "-overlay", ovf, "-vet=off", "-count=1", "-v", "-timeout", "240s", "-run", "^("+strings.Join(names, "|")+")$", ".")
	cmd.Dir = filepath.Join(repoDir, h.Pkg)
	cmd.Env = append(os.Environ(), "GOFLAGS=", "GOPROXY=off", "GOSUMDB=off", "GOTOOLCHAIN=local")
	cmd.Env = append(cmd.Env, env...)
	done := make(chan struct{})
	var out []byte
	go func() { out, _ = cmd.CombinedOutput(); close(done) }()
	select {
	case <-done:
	case <-time.After(300 * time.Second):
		if cmd.Process != nil {
			cmd.Process.Kill()
		}
		<-done
		return string(out) + "\n(harness timed out)", false
	}
	s := string(out)
	if strings.Contains(s, "[build failed]") || strings.Contains(s, "[setup failed]") {
		return s, false
	}
	return s, true
}

// writeConformReplay records the failing case: the harness, the command that reruns it on
// the real code, and the log of this run.
func writeConformReplay(prop string, r *conformResult, f conformFailure) string {
	dir := filepath.Join(verifDir, "replays", prop)
	os.MkdirAll(dir, 0o755)
	path := filepath.Join(dir, sanitize("conform:"+f.ID)+".json")
	log := r.output
	if len(log) > 20000 {
		log = log[:20000] + "\n...(truncated)"
	}
	rec := map[string]interface{}{
		"property":          prop,
		"obligation":        "conform:" + f.ID,
		"kind":              "bounded-conformance",
		"function":          r.Pkg + " (" + r.What + ")",
		"clause":            f.Msg,
		"status":            "failing-input",
		"solver":            "none (the real code was executed)",
		"failing_input":     f.ID,
		"env":               f.Env,
		"rerun":             fmt.Sprintf("cd /repo/%s && %s go test -overlay <{\"Replace\":{\"/repo/%s/zz_verif_conform_test.go\":\"/verif/conform/%s\"}}> -vet=off -count=1 -v -run '^%s$' .", r.Pkg, f.Env, r.Pkg, r.Harness, r.Test),
		"replay_reproduced": true,
		"log":               log,
	}
	b, _ := json.MarshalIndent(rec, "", " ")
	os.WriteFile(path, b, 0o644)
	return path
}
