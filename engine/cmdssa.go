package main

import (
	"fmt"
	"os"
	"strings"

	"golang.org/x/tools/go/ssa/ssautil"
)

// gowp ssa <suffix>...: print the SSA of functions whose full name ends with a suffix (debugging aid).
func cmdSSA(args []string) int {
	e, err := loadEngine(nil)
	if err != nil {
		fmt.Fprintln(os.Stderr, err)
		return 2
	}
	for fn := range ssautil.AllFunctions(e.prog) {
		for _, a := range args {
			if strings.HasSuffix(fn.String(), a) {
				fn.WriteTo(os.Stdout)
			}
		}
	}
	return 0
}
