package main

// Frame checking, one obligation per heap write: every store (and every
// callee effect applied at a call site) must hit a location listed in the
// function's modifies clause or an object allocated during the call.  Inside
// a loop that has its own modifies clause the same is required relative to
// the loop entry.  (This replaces a single extensional "heap' == heap except
// ..." obligation per heap, which does not scale.)

import (
	"fmt"
	"go/token"
	"go/types"
	"strings"

	"golang.org/x/tools/go/ssa"
)

type frameSpec struct {
	refs     map[string][]string // heap name -> allowed object / array references
	names    map[string]bool     // globals and ghosts allowed by name
	prefixes []string            // globals(pkg)
	now      string              // clock at the point the spec was taken (function or loop entry)
}

func (f *Frame) buildFrameSpec(env *SpecEnv, mods []SExpr, now string) *frameSpec {
	c := f.c
	fs := &frameSpec{refs: map[string][]string{}, names: map[string]bool{}, now: now}
	for _, m := range mods {
		lv := env.lvalue(m)
		if lv.mapM != nil {
			for _, hn := range []string{lv.mapM.has, lv.mapM.val, lv.mapM.length} {
				fs.refs[hn] = append(fs.refs[hn], lv.mapRef)
			}
			continue
		}
		if len(lv.heapAll) > 0 {
			for _, n := range lv.heapAll {
				fs.names[n] = true
			}
			continue
		}
		if lv.globalsOf != nil {
			fs.prefixes = append(fs.prefixes, "G_"+sanitize(lv.globalsOf.Pkg.Path()+"."))
			continue
		}
		if lv.whole {
			hn, _ := c.heapNameArr(lv.elemT)
			fs.refs[hn] = append(fs.refs[hn], fmt.Sprintf("(sbase %s)", lv.slice))
			continue
		}
		p := lv.path
		switch p.Kind {
		case rootGhost:
			fs.names[p.Ref] = true
		case rootGlobal:
			fs.names[globalName(p.Glob)] = true
		case rootHeap, rootArr:
			for _, n := range c.heapNamesWritten(p) {
				fs.refs[n] = append(fs.refs[n], p.Ref)
			}
		}
	}
	return fs
}

// heapNamesWritten: the heaps a store through p touches.
func (c *Ctx) heapNamesWritten(p *Path) []string {
	switch p.Kind {
	case rootHeap:
		if u, ok := heapStruct(p); ok {
			if len(p.Steps) > 0 && !p.Steps[0].IsIdx {
				n, _ := c.heapNameField(p.T, u, p.Steps[0].Field)
				return []string{n}
			}
			var ns []string
			for i := 0; i < u.NumFields(); i++ {
				n, _ := c.heapNameField(p.T, u, i)
				ns = append(ns, n)
			}
			return ns
		}
		n, _ := c.heapNameObj(p.T)
		return []string{n}
	case rootArr:
		n, _ := c.heapNameArr(p.T)
		return []string{n}
	}
	return nil
}

func (fs *frameSpec) goal(name, ref string) string {
	// a nil reference designates no memory; an object born at or after the entry clock is new
	alts := []string{fmt.Sprintf("(= %s 0)", ref), fmt.Sprintf("(>= (born %s) %s)", ref, fs.now)}
	for _, a := range fs.refs[name] {
		if a == ref {
			return "true"
		}
		alts = append(alts, fmt.Sprintf("(= %s %s)", ref, a))
	}
	return or(alts...)
}

func (fs *frameSpec) nameAllowed(name string) bool {
	if fs.names[name] {
		return true
	}
	for _, p := range fs.prefixes {
		if strings.HasPrefix(name, p) {
			return true
		}
	}
	return false
}

// frameWrite records the obligations for one write to heap `name` at object `ref` ("" for globals/ghosts).
func (f *Frame) frameWrite(name, ref string, pos token.Pos) {
	tf := f.topFrame()
	if tf.fspec == nil || f.c.dry {
		return
	}
	if !pos.IsValid() {
		pos = f.curPos
	}
	check := func(fs *frameSpec, kind, what string) {
		if ref == "" {
			if !fs.nameAllowed(name) {
				f.oblige(kind, name, "false", pos, nil, name+" is written but not listed in the "+what+" modifies clause")
			}
			return
		}
		if fs.names[name] {
			return
		}
		g := fs.goal(name, ref)
		f.oblige(kind, name, g, pos, nil, "write to "+name+" outside the "+what+" modifies clause (neither a listed location nor an object allocated since "+what+" entry)")
	}
	check(tf.fspec, "frame", "function")
	for h, ls := range tf.loopSpecs {
		if tf.loopBody[h][tf.curBlock] {
			check(ls, "loop-frame", "loop")
		}
	}
}

func (f *Frame) frameWritePath(p *Path, pos token.Pos) {
	switch p.Kind {
	case rootHeap, rootArr:
		for _, n := range f.c.heapNamesWritten(p) {
			f.frameWrite(n, p.Ref, pos)
		}
	case rootGlobal:
		f.frameWrite(globalName(p.Glob), "", pos)
	case rootGhost:
		f.frameWrite(p.Ref, "", pos)
	}
}

// loopBodies: natural loop of every header (blocks that reach a latch without passing the header).
func loopBodies(fn *ssa.Function) map[*ssa.BasicBlock]map[*ssa.BasicBlock]bool {
	out := map[*ssa.BasicBlock]map[*ssa.BasicBlock]bool{}
	for _, b := range fn.Blocks {
		for _, s := range b.Succs {
			if !isBackEdge(b, s) {
				continue
			}
			h := s
			body := out[h]
			if body == nil {
				body = map[*ssa.BasicBlock]bool{h: true}
				out[h] = body
			}
			var stack []*ssa.BasicBlock
			if !body[b] {
				body[b] = true
				stack = append(stack, b)
			}
			for len(stack) > 0 {
				x := stack[len(stack)-1]
				stack = stack[:len(stack)-1]
				for _, p := range x.Preds {
					if !body[p] {
						body[p] = true
						stack = append(stack, p)
					}
				}
			}
		}
	}
	return out
}

var _ = types.Typ
