# Claim table (executed by mkmanifest.py). Keep texts honest: what is proved, what is assumed, what is not reached.
claim("C01",
 "Partial. Proved for all inputs (unbounded): the trailing-data rule of Unmarshal (Decoder.CheckTrailings: nil iff only RFC 8259 white space follows; error position is the first offending byte). The opcode programs and generated machine code are not reached.",
 "Go layer only; native scanners are assumed contracts; generated decoder code, reflect-driven field resolution not verified. Trusted: the gowp translation, SMT solvers.")
claim("C02",
 "Partial. Proved for all inputs: the Go wrappers add exactly the 'one value then only white space' rule to what the native validating scanner reports (alg.Valid, Decoder.CheckTrailings), with the scanner as a deterministic assumed contract.",
 "native validate_one/skip_one are assumed contracts (machine code is outside the reach of a Go verifier); other consuming APIs (ast parser, Skip) not yet under contract.")
claim("C07",
 "Partial. No-panic sweep (index, slice bounds, nil dereference, division, integer overflow, explicit panic) and loop termination for every function under contract, plus error-position/excerpt bounds (calcBounds, CheckTrailings, Valid).",
 "Only functions under contract are swept; generated code and native routines not reached; recursion depth of Go recursive descents not yet covered.")
claim("C18",
 "Proved: Config.Froze sets exactly the documented option bit(s) for each of the Config switches and no other bit; every Encoder/Decoder setter changes exactly its bit; option constants agree across api/consts/alg/native-types layers and are pairwise distinct.",
 "The effect of each bit inside generated code/native routines (what the flag does once tested) is not reached; only the wiring is proved.")
