# Claim table (executed by mkmanifest.py). Keep texts honest: what is proved, what is assumed, what is not reached.
claim("C01",
 "Partial. Proved for all inputs (unbounded): the trailing-data rule of Unmarshal (Decoder.CheckTrailings: nil iff only RFC 8259 white space follows; error position is the first offending byte). The opcode programs and generated machine code are not reached.",
 "Go layer only; native scanners are assumed contracts; generated decoder code, reflect-driven field resolution not verified. Trusted: the gowp translation, SMT solvers.")
claim("C02",
 "Partial. Proved for all inputs: the Go wrappers add exactly the 'one value then only white space' rule to what the native validating scanner reports (alg.Valid, Decoder.CheckTrailings), with the scanner as a deterministic assumed contract.",
 "native validate_one/skip_one are assumed contracts (machine code is outside the reach of a Go verifier); other consuming APIs (ast parser, Skip) not yet under contract.")
claim("C07",
 "Partial. No-panic sweep (index, slice bounds, nil dereference, division, integer overflow, explicit panic) and loop termination for every function under contract, plus error-position/excerpt bounds (calcBounds, CheckTrailings, Valid).",
 "Only functions under contract are swept; generated code and native routines not reached; recursion depth of Go recursive descents not yet covered.")
claim("C18",
 "Proved: Config.Froze sets exactly the documented option bit(s) for each of the Config switches and no other bit; every Encoder/Decoder setter changes exactly its bit; option constants agree across api/consts/alg/native-types layers and are pairwise distinct.",
 "The effect of each bit inside generated code/native routines (what the flag does once tested) is not reached; only the wiring is proved.")
claim("C04",
 "Partial. Proved: the encoder value stack (vars.Stack Push/Pop/Save/Drop/Load) fails exactly when MaxStack states are in use and never writes outside its array (the guard that turns cyclic data into an error); alg.IsValidNumber never panics and terminates on every string; alg.Valid's single-value rule.",
 "Round trip through generated encoder code and native float/quote routines is not reached; only Go-side guards are proved.")
claim("C11",
 "Partial. Proved for the alternative decoder's Go functors: integer functors i8..u64 accept exactly the integer tokens whose value fits the width, store the value without wrapping or truncation, leave the destination untouched on null and on error; AsI64/AsU64/AsByte boundaries. The native DOM accessors are assumed pure functions of the node.",
 "No relational proof against the JIT decoder (generated code is out of reach); native parse_with_padding assumed; map/slice/struct/interface functors not yet under contract.")
claim("C13",
 "Narrow. Proved: useSSE/useAVX2 fill every slot of the dispatch table with the same-named routine of their own ISA package (no crossed or mixed wires), both fill the same set, init selects AVX2 iff cpu.HasAVX2 else SSE else panics.",
 "Equivalence of the two machine-code bodies is outside the reach of a Go verifier and is not claimed; <pkg>.Use (installation of the text) is an assumed contract.")
claim("C19",
 "Partial. Proved: integer width handling of the optdec functors (range checks per width, exact narrowing, unsigned/signed boundary at MaxInt64, AsByte), ParseU64 against strconv; alg.IsValidNumber safety.",
 "Float parsing/printing and integer accumulation are native code (not reached); JIT range-check emission parameters not yet covered.")
claim("C09",
 "Partial. Proved for the type-keyed program cache: a hit of _ProgramMap.get returns the codec stored under exactly that type identity (pointer), never one stored under an equal hash or name; insert fills exactly one previously empty slot, leaves every other binding unchanged and cannot reach its 'no available slots' panic when a free slot exists (full probe coverage, mask arithmetic lemma proved in bit-vector mode); copy is a structurally equal fresh map and leaves the published map untouched.",
 "Completeness of get (a present key is found: needs the probe-chain invariant), rehash/add (need a counting invariant), batch loading (loader) and the encoder cache key are not yet under contract; the number of cached types is assumed < 2^30; x & m == x mod (m+1) for masks is an int-mode axiom backed by a bv-mode lemma.")
claim("C17",
 "Proved: StreamDecoder keeps its buffer equal to the most recent bytes delivered by the Reader, in order, for every chunking (empty reads, short reads, data+error) through scan/realloc/refill/peek/More/readMore/Decode; errors are sticky; a successful Decode strictly advances InputOffset; the decoded text never aliases the read buffer; positions and slices stay in range. StreamEncoder.Encode delivers exactly the encoder's bytes plus the optional newline under short writes and returns the first Writer error including the newline's.",
 "Reader/Writer are nondeterministic assumed contracts (io.Reader/io.Writer, total stream < 2^62 bytes); native skip_one_fast and the decoder core are assumed contracts; value framing against the whole remaining input (a number cut at the end of the buffered prefix) and the EOF/ErrUnexpectedEOF classification are NOT decided (see DESIGN section 8).")
claim("C06",
 "Partial. Proved with an ownership ghost ($pooled = byte arrays owned by a sync.Pool): the slice returned by encoder.Encode and by ast.Node.MarshalJSON (non-raw nodes) is never owned by a pool afterwards and is new or handed-over memory, on both sides of the pool size limit; encodeFinishWithPool pools only the replaced buffer; NewBytes/FreeBytes/newBuffer/freeBuffer/api.freeBytes keep the pool well-formed; the text decoded by StreamDecoder.Decode never aliases the read buffer. Since later calls obtain memory only from a pool or fresh allocation, bytes not owned by a pool cannot be changed by later calls.",
 "sync.Pool semantics (Get returns exclusively owned objects; pool discipline len==0 as rely/guarantee) are assumed; writes of generated encoder code (check_size/more_space), EncodeInto's spare-capacity frame, CopyString/Unmarshal copies are not reached; alg.HtmlEscape and utf8.CorrectWith are assumed w.r.t. ownership.")
claim("C15",
 "Partial. Proved for the chunked child storage linkedNodes against a sequence view (element i = head[i] or tail[i/16-1][i%16]): At returns the address of element i or nil exactly out of range; Set/Push/Pop have whole-view postconditions (element i becomes v, every other element below size unchanged, size as specified) and preserve the representation invariant (chunks allocated below size, pairwise distinct, spare tail capacity nil); growTailLength keeps existing chunks; MoveOne is remove-then-insert on the sequence; ToSlice copies the sequence in order.",
 "linkedPairs (hash index, needs the map model), the Node mutators in node.go and the lazy-loading transitions are not yet under contract; Set is specified for i <= size only (larger i leaves unallocated chunks below size: see DESIGN section 8).")
claim("C14",
 "Narrow. Proved: linkedNodes.At/ToSlice return exactly the i-th stored element / the stored sequence in order (the chunk arithmetic behind Index, Array and Interface views).",
 "Native get_by_path, the lazy skip logic (skipKey/skipIndex), linkedPairs.Get with its hash index and the traverser are not yet under contract.")
