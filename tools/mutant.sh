#!/bin/bash
# Ad-hoc must-fail test: applies a sed expression to one file in a scratch worktree of
# /repo's HEAD + working tree contracts, runs the given check there, prints the verdict.
# usage: mutant.sh <prop> <relative-file> <sed-expr> [--only substr]
cd /verif
prop=$1; file=$2; expr=$3; shift 3
WT=/tmp/mutant_wt.$$
git -C /repo worktree add --detach $WT HEAD -q || exit 2
# carry uncommitted contract edits along
(cd /repo && git diff HEAD) | git -C $WT apply 2>/dev/null
(cd /repo && git ls-files --others --exclude-standard) | while read f; do mkdir -p $WT/$(dirname $f); cp /repo/$f $WT/$f; done
before=$(md5sum $WT/$file)
sed -i "$expr" $WT/$file
[ "$before" = "$(md5sum $WT/$file)" ] && echo "MUTANT DID NOT CHANGE THE FILE"
(cd $WT && GOPROXY=off GOSUMDB=off GOTOOLCHAIN=local go build ./$(dirname $file)/ 2>&1 | head -3)
out=$(GOWP_REPO=$WT GOWP_NOEVIDENCE=1 bin/gowp check $prop "$@" 2>&1); rc=$?
echo "$out" | grep -E '^FAILED|^BROKEN' | cut -c1-220 | head -5
echo "exit=$rc $(echo "$out" | tail -1)"
git -C /repo worktree remove --force $WT
