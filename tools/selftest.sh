#!/bin/bash
# Must-fail / must-pass corpus for the engine (run after every engine change):
# every "fail" line is a property-breaking edit that the named check has to report,
# every "pass" line a harmless edit it must accept.  Edits are made in a scratch
# worktree of /repo's HEAD (plus uncommitted contract files), never in /repo.
cd /verif
ok=0; bad=0
while IFS=$'\t' read -r kind prop file expr only what; do
  case "$kind" in \#*|"") continue;; esac
  args=(); [ -n "$only" ] && [ "$only" != "-" ] && args=(--only "$only")
  out=$(tools/mutant.sh "$prop" "$file" "$expr" "${args[@]}" 2>&1)
  rc=$(echo "$out" | grep -o '^exit=[0-9]*' | tail -1 | cut -d= -f2)
  nochange=$(echo "$out" | grep -c 'DID NOT CHANGE')
  verdict=UNEXPECTED
  if [ "$nochange" != 0 ]; then verdict="STALE (edit did not apply)";
  elif [ "$kind" = fail ] && [ "$rc" = 1 ]; then verdict=ok;
  elif [ "$kind" = pass ] && [ "$rc" = 0 ]; then verdict=ok;
  # "brittle": a harmless edit the check is known NOT to accept (a documented limitation,
  # DESIGN 8.9); it is listed so that the limitation stays visible and is noticed when it goes away
  elif [ "$kind" = brittle ] && [ "$rc" = 1 ]; then verdict="ok (known brittleness: harmless edit reported)";
  elif [ "$kind" = brittle ] && [ "$rc" = 0 ]; then verdict="ok (no longer brittle: make this a pass entry)";
  fi
  case "$verdict" in ok*) ok=$((ok+1));; *) bad=$((bad+1));; esac
  echo "$verdict	$kind	$prop	$file	$what	(exit=$rc)"
done < selftest/corpus.tsv
echo "selftest: $ok as expected, $bad unexpected"
[ $bad = 0 ]
