#!/bin/bash
# Must-fail / must-pass corpus for the engine (run after every engine change):
# every "fail" line is a property-breaking edit that the named check has to report,
# every "pass" line a harmless edit it must accept.  Edits are made in a scratch
# worktree of /repo's HEAD (plus uncommitted contract files), never in /repo.
cd /verif
ok=0; bad=0
while IFS=$'\t' read -r kind prop file expr only what; do
  case "$kind" in \#*|"") continue;; esac
  args=(); [ -n "$only" ] && [ "$only" != "-" ] && args=(--only "$only")
  out=$(tools/mutant.sh "$prop" "$file" "$expr" "${args[@]}" 2>&1)
  rc=$(echo "$out" | grep -o '^exit=[0-9]*' | tail -1 | cut -d= -f2)
  nochange=$(echo "$out" | grep -c 'DID NOT CHANGE')
  verdict=UNEXPECTED
  if [ "$nochange" != 0 ]; then verdict="STALE (edit did not apply)";
  elif [ "$kind" = fail ] && [ "$rc" = 1 ]; then verdict=ok;
  elif [ "$kind" = pass ] && [ "$rc" = 0 ]; then verdict=ok; fi
  [ "$verdict" = ok ] && ok=$((ok+1)) || bad=$((bad+1))
  echo "$verdict	$kind	$prop	$file	$what	(exit=$rc)"
done < selftest/corpus.tsv
echo "selftest: $ok as expected, $bad unexpected"
[ $bad = 0 ]
