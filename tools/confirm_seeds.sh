#!/bin/bash
# Confirms seeded property-breaking changes in a scratch worktree (never in /repo):
#   patch applies, tree builds, demonstration FAILS with the patch and PASSES without,
#   the existing test suite still passes with the patch.
# usage: confirm_seeds.sh <seed-root> <result-dir> [ids...]
export GOPROXY=off GOSUMDB=off GOTOOLCHAIN=local GOMAXPROCS=6
ROOT=$1; OUT=$2; shift 2
WT=/tmp/confirm_wt
mkdir -p $OUT
git -C /repo worktree remove --force $WT 2>/dev/null
git -C /repo worktree add --detach $WT HEAD -q || exit 1
for d in "$@"; do
  id=$(echo $d | tr '/' '_')
  S=$ROOT/$d
  R=$OUT/$id.result
  [ -f $S/patch.diff ] || { echo "$d: no patch" > $R; continue; }
  place=$(grep -m1 -o 'place in: *[^ ]*' $S/demo_test.go | sed 's/place in: *//; s#/$##')
  [ -z "$place" ] && place=.
  [ "$place" = "root" ] && place=.
  place=${place#./}; [ -z "$place" ] && place=.
  [ -d "$WT/$place" ] || place=.
  echo "== $d (demo in $place)" > $R
  cd $WT && git checkout -q -- . && git clean -fdq
  # demo on clean tree: must pass
  cp $S/demo_test.go $WT/$place/zz_seed_demo_test.go
  names=$(grep -o '^func Test[A-Za-z0-9_]*' $S/demo_test.go | sed 's/func //' | paste -sd'|')
  (cd $WT/$place && timeout 600 go test -vet=off -count=1 -run "^($names)\$" -timeout 300s . > $OUT/$id.clean.log 2>&1); c=$?
  echo "demo_on_clean_exit=$c" >> $R
  git -C $WT apply $S/patch.diff 2>> $R || { echo "apply_failed" >> $R; rm -f $WT/$place/zz_seed_demo_test.go; continue; }
  (cd $WT && go build ./... > $OUT/$id.build.log 2>&1); echo "build_exit=$?" >> $R
  (cd $WT/$place && timeout 600 go test -vet=off -count=1 -run "^($names)\$" -timeout 300s . > $OUT/$id.patched.log 2>&1); p=$?
  echo "demo_on_patched_exit=$p" >> $R
  rm -f $WT/$place/zz_seed_demo_test.go
  # existing suite with the patch (root module; loader module when touched)
  (cd $WT && timeout 2400 go test -vet=off -count=1 -p 3 -timeout 25m ./... > $OUT/$id.suite.log 2>&1); echo "suite_exit=$?" >> $R
  if grep -q '^+++ b/loader/' $S/patch.diff; then (cd $WT/loader && timeout 1200 go test -vet=off -count=1 ./... > $OUT/$id.suite_loader.log 2>&1); echo "suite_loader_exit=$?" >> $R; fi
  git -C $WT checkout -q -- . ; git -C $WT clean -fdq
  echo "done" >> $R
done
cd / && git -C /repo worktree remove --force $WT
echo ALLDONE > $OUT/ALLDONE
