#!/usr/bin/env python3
"""Builds seeded/MATRIX.md from seeded/_results/*.txt and seeded/*/meta.json and
splices it into DESIGN.md (between the MATRIX markers)."""
import json, os, re, glob
rows = []
for d in sorted(glob.glob('/verif/seeded/C*-*')):
    sid = os.path.basename(d)
    files = sorted(set(re.findall(r'^\+\+\+ b/(\S+)', open(d + '/patch.diff').read(), re.M)))
    res = '/verif/seeded/_results/%s.txt' % sid
    caught, props, own, first = 'not run', '', '', ''
    if os.path.exists(res):
        lines = open(res).read().splitlines()
        m = re.match(r'.*failed=(\d+) broken=(\d+) caught_by_props=\[([^\]]*)\] own_property=(\w+)', lines[0]) if lines else None
        if m:
            nf, nb = int(m.group(1)), int(m.group(2))
            props, own = m.group(3), m.group(4)
            caught = 'yes' if nf > 0 else ('contract out of date' if nb > 0 else 'no')
            fl = [l for l in lines[1:] if l.startswith('FAILED')]
            if fl:
                first = re.sub(r'^FAILED\[[^\]]*\] ', '', fl[0]).split(' at ')[0]
        elif lines:
            caught = lines[0].split(': ', 1)[-1]
    layer = 'Go'
    if any('assembler_regabi' in f or '_text_amd64' in f or 'generic_regabi' in f for f in files):
        layer = 'emitter/native (E/N)'
    rows.append((sid, ', '.join(files), layer, caught, own, props, first))
out = ['| seed | file(s) changed | layer | caught | by own property | properties of failing obligations | first failing obligation |', '|---|---|---|---|---|---|---|']
for r in rows:
    out.append('| %s | %s | %s | %s | %s | %s | %s |' % tuple(x.replace('|', '\\|') for x in r))
n = len(rows); c = sum(1 for r in rows if r[3] == 'yes'); go = [r for r in rows if r[2] == 'Go']; cg = sum(1 for r in go if r[3] == 'yes')
own = sum(1 for r in rows if r[4] == 'yes')
summary = '\n%d of %d seeded changes are reported as violations (%d by an obligation of the seed\'s own property); of the %d changes to ordinary Go code %d are caught; of the %d changes inside the assemblers / native byte arrays %d.\n' % (c, n, own, len(go), cg, n - len(go), c - cg)
md = '\n'.join(out) + '\n' + summary
open('/verif/seeded/MATRIX.md', 'w').write(md)
p = '/verif/DESIGN.md'
s = open(p).read()
if 'MATRIX-TABLE-PLACEHOLDER' in s:
    s = s.replace('MATRIX-TABLE-PLACEHOLDER', '<!-- MATRIX-BEGIN -->\n' + md + '<!-- MATRIX-END -->')
else:
    s = re.sub(r'<!-- MATRIX-BEGIN -->.*<!-- MATRIX-END -->', lambda m: '<!-- MATRIX-BEGIN -->\n' + md + '<!-- MATRIX-END -->', s, flags=re.S)
open(p, 'w').write(s)
print(summary)
