#!/usr/bin/env python3
"""Builds seeded/MATRIX.md from seeded/_results/*.txt and seeded/*/meta.json and
splices it into DESIGN.md (between the MATRIX markers)."""
import json, os, re, glob
rows = []
for d in sorted(glob.glob('/verif/seeded/C*-*')):
    sid = os.path.basename(d)
    files = sorted(set(re.findall(r'^\+\+\+ b/(\S+)', open(d + '/patch.diff').read(), re.M)))
    res = '/verif/seeded/_results/%s.txt' % sid
    cres = '/verif/seeded/_results/%s.conform.txt' % sid
    caught, props, own, first, how = 'not run', '', '', '', ''
    fl, nb, ran, note = [], 0, False, ''
    if os.path.exists(res):
        lines = open(res).read().splitlines()
        m = re.match(r'.*failed=(\d+) broken=(\d+)', lines[0]) if lines else None
        if m:
            ran = True
            nb = int(m.group(2))
            fl = [l for l in lines[1:] if l.startswith('FAILED')]
        elif lines:
            note = lines[0].split(': ', 1)[-1]
    if os.path.exists(cres) and (not os.path.exists(res) or os.path.getmtime(cres) > os.path.getmtime(res)):
        # a later harness-only run replaces the harness lines of the full run
        lines = open(cres).read().splitlines()
        if lines and re.match(r'.*failed=(\d+)', lines[0]):
            fl = [l for l in fl if '(bounded harness' not in l] + [l for l in lines[1:] if l.startswith('FAILED')]
    if ran:
        pset = set()
        for l in fl:
            m = re.match(r'FAILED\[([^\]]*)\]', l)
            if m:
                pset.update(x for x in m.group(1).split(',') if x)
        props = ','.join(sorted(pset))
        own = 'yes' if sid.split('-')[0] in pset else 'no'
        caught = 'yes' if fl else ('contract out of date' if nb > 0 else 'no')
        proof = [l for l in fl if '(bounded harness' not in l]
        bnd = [l for l in fl if '(bounded harness' in l]
        how = 'proof obligation' if proof and not bnd else ('bounded harness' if bnd and not proof else ('both' if fl else ''))
        if fl:
            f0 = (proof or bnd)[0]
            first = re.sub(r'^FAILED\[[^\]]*\] ', '', f0).split(' at ')[0].split('): ')[0]
            if '(bounded harness' in first and not first.endswith(')'):
                first += ')'
    elif note:
        caught = note
    layer = 'Go'
    if any('assembler_regabi' in f or '_text_amd64' in f or 'generic_regabi' in f for f in files):
        layer = 'emitter/native (E/N)'
    rows.append((sid, ', '.join(files), layer, caught, own, props, first, how))
out = ['| seed | file(s) changed | layer | caught | by own property | properties of failing obligations | first failing obligation | caught by |', '|---|---|---|---|---|---|---|---|']
for r in rows:
    out.append('| %s | %s | %s | %s | %s | %s | %s | %s |' % tuple(x.replace('|', '\\|') for x in r))
n = len(rows); c = sum(1 for r in rows if r[3] == 'yes'); go = [r for r in rows if r[2] == 'Go']; cg = sum(1 for r in go if r[3] == 'yes')
own = sum(1 for r in rows if r[4] == 'yes')
byproof = sum(1 for r in rows if r[7] in ('proof obligation', 'both'))
onlyb = sum(1 for r in rows if r[7] == 'bounded harness')
summary = '\n%d of %d seeded changes are reported as violations (%d by a check of the seed\'s own property): %d by a failing proof obligation, %d more only by a bounded harness (a failing input on the real code, not a proof). Of the %d changes to ordinary Go code %d are caught; of the %d changes inside the assemblers / native byte arrays %d (all of these by the bounded harnesses: no contract reaches emitted code).\n' % (c, n, own, byproof, onlyb, len(go), cg, n - len(go), c - cg)
md = '\n'.join(out) + '\n' + summary
open('/verif/seeded/MATRIX.md', 'w').write(md)
p = '/verif/DESIGN.md'
s = open(p).read()
if 'MATRIX-TABLE-PLACEHOLDER' in s:
    s = s.replace('MATRIX-TABLE-PLACEHOLDER', '<!-- MATRIX-BEGIN -->\n' + md + '<!-- MATRIX-END -->')
else:
    s = re.sub(r'<!-- MATRIX-BEGIN -->.*<!-- MATRIX-END -->', lambda m: '<!-- MATRIX-BEGIN -->\n' + md + '<!-- MATRIX-END -->', s, flags=re.S)
open(p, 'w').write(s)
print(summary)
