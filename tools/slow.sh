#!/bin/bash
# Lists obligations whose solver time is >= $1 seconds (default 2): candidates for flakiness.
cd /verif
thr=${1:-2}
props=$(python3 -c "import json;print(' '.join(c['property_id'] for c in json.load(open('MANIFEST.json'))['checks']))")
for p in $props; do
  GOWP_NOEVIDENCE=1 bin/gowp check $p -v 2>&1 | awk -v t=$thr -v p=$p '/^ok /{ s=$NF; sub(/s$/,"",s); if (s+0 >= t) print p, $2, $3, $NF }'
done | sort -u -k2,2
