#!/usr/bin/env python3
"""Regenerates /verif/MANIFEST.json from the claim table below."""
import json, subprocess
props = [json.loads(l) for l in open('/verif/properties.jsonl')]
TECH = "contract-based deductive verification: weakest-precondition VCs generated from go/ssa of /repo's working tree, contracts in //go:build verif comment files, discharged by z3/cvc5"
# property -> (text, note) for claimed checks
CLAIMS = {}
def claim(pid, text, note):
    CLAIMS[pid] = (text, note)
NA = {}
exec(open('/verif/tools/claims.py').read())
hooks = subprocess.run(['git','-C','/repo','log','--format=%H %s'],capture_output=True,text=True).stdout.splitlines()
hook_commits = [l.split()[0] for l in hooks if l.split(' ',1)[1].startswith('verif:')]
m = {
 "version": 1,
 "setup_cmd": "cd /verif/engine && GOFLAGS=-mod=vendor GOPROXY=off GOSUMDB=off GOTOOLCHAIN=local go build -o /verif/bin/gowp .",
 "hooks": {"guard": "verif", "enable": "go/packages load of /repo with -tags verif (contract files zz_verif_contracts.go are comment-only and guarded by //go:build verif)",
           "baseline_off_cmd": "cd /repo && for m in . ./external_jsonlib_test ./fuzz ./generic_test ./issue_test ./loader; do (cd $m && go test -vet=off -count=1 -timeout 25m ./...); done",
           "source_commits": hook_commits, "add_only": True},
 "engines": [{"name": "gowp", "path": "/verif/engine", "serves_properties": sorted(CLAIMS), "kind_free_text": "hand-written deductive verifier for Go: go/ssa (NaiveForm) symbolic execution to SMT-LIB VCs, contracts (requires/ensures/invariant/decreases/modifies, pure spec functions, data invariants, lemmas), z3 5.1 / z3 4.8 / cvc5 portfolio"}],
 "checks": [], "not_applicable": [],
 "notes": "All checks are proofs of named obligations generated from /repo's current source; see DESIGN.md. KNOWN_FINDINGS.jsonl lists recorded defects (with witness regions) and fixed ones."
}
for p in props:
    pid = p['id']
    if pid in CLAIMS:
        text, note = CLAIMS[pid]
        m["checks"].append({"property_id": pid, "quick_cmd": f"bin/gowp check {pid} --tier quick", "thorough_cmd": f"bin/gowp check {pid} --tier thorough",
            "evidence_file": f"/verif/evidence/{pid}.json", "replay_cmd_template": "bin/gowp replay {path}", "engine": "gowp",
            "level_claimed": {"category": "proof", "text": text, "design_ref": f"DESIGN.md section 4 ({pid}) and section 8"},
            "level_note": note, "technique": TECH})
    else:
        m["not_applicable"].append({"property_id": pid, "reason": NA.get(pid, "no check built yet with this technique (work in progress; plan in DESIGN.md section 4)")})
json.dump(m, open('/verif/MANIFEST.json','w'), indent=1)
print("claimed:", sorted(CLAIMS), "n/a:", [x['property_id'] for x in m['not_applicable']])
