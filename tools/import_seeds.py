#!/usr/bin/env python3
"""Copies confirmed seeded changes from the agents' output dirs into /verif/seeded/<prop>-<k>/."""
import json, os, shutil, sys, glob
src, conf = sys.argv[1], sys.argv[2:]
for d in sorted(glob.glob(src + '/C*.out/[0-9]')):
    prop = os.path.basename(os.path.dirname(d)).split('.')[0]; k = os.path.basename(d)
    res = None
    for c in conf:
        p = f'{c}/{prop}.out_{k}.result'
        if os.path.exists(p): res = open(p).read()
    if not res or 'suite_exit=0' not in res or 'demo_on_clean_exit=0' not in res or 'demo_on_patched_exit=1' not in res or 'build_exit=0' not in res:
        print('skip (not confirmed):', d); continue
    out = f'/verif/seeded/{prop}-{k}'
    os.makedirs(out, exist_ok=True)
    shutil.copy(d + '/patch.diff', out + '/patch.diff')
    shutil.copy(d + '/demo_test.go', out + '/demo_test.go')
    try: meta = json.load(open(d + '/meta.json'))
    except Exception: meta = {}
    meta['confirmed_by'] = 'tools/confirm_seeds.sh in a scratch worktree: patch applies, go build ./... ok, demonstration passes on the clean tree and fails with the patch, go test ./... of the root module passes with the patch'
    meta['confirmation_log'] = res
    json.dump(meta, open(out + '/meta.json', 'w'), indent=1)
    print('imported', out)
