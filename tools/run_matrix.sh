#!/bin/bash
# Seeded-change matrix: applies each confirmed property-breaking change to a scratch
# worktree of /repo's HEAD (never to /repo itself) and runs EVERY contract of the
# touched packages (and of packages whose contracts mention them) there, recording
# which obligations fail and which properties those obligations serve.
# usage: run_matrix.sh [seed-dir-names...]   (default: all of /verif/seeded)
# CONFORM_ONLY=1: run only the bounded harnesses (results in _results/<seed>.conform.txt,
# merged by matrix_table.py with the last full run of the seed)
cd /verif
WT=/tmp/matrix_wt_$$
git -C /repo worktree remove --force $WT 2>/dev/null
git -C /repo worktree add --detach $WT HEAD -q || exit 2
seeds="$@"; [ -z "$seeds" ] && seeds=$(ls seeded | grep '^C[0-9][0-9]-')
mkdir -p /verif/seeded/_results
for s in $seeds; do
  prop=${s%%-*}
  git -C $WT checkout -q -- . ; git -C $WT clean -fdq
  if ! git -C $WT apply --check /verif/seeded/$s/patch.diff 2>/dev/null; then echo "$s: patch does not apply to the current tree" | tee /verif/seeded/_results/$s.txt; continue; fi
  git -C $WT apply /verif/seeded/$s/patch.diff
  dirs=$(grep '^+++ b/' /verif/seeded/$s/patch.diff | sed 's#^+++ b/##' | xargs -n1 dirname | sort -u)
  pkgs=""
  for d in $dirs; do
    pkgs="$pkgs,$d"
    b=$(basename $d)
    for cf in $(grep -rl --include=zz_verif_contracts.go -E "\b$b\.[A-Za-z_]" /repo 2>/dev/null); do
      pd=$(dirname ${cf#/repo/}); pkgs="$pkgs,$pd"
    done
  done
  pkgs=$(echo "$pkgs" | tr ',' '\n' | grep -v '^$' | sed 's#^\.$#sonic#' | sort -u | paste -sd,)
  sfx=txt; [ -n "$CONFORM_ONLY" ] && sfx=conform.txt
  out=$(GOWP_REPO=$WT GOWP_NOEVIDENCE=1 GOWP_ONLYCONFORM=$CONFORM_ONLY GOWP_PKGS="$pkgs" bin/gowp check ALL 2>&1); rc=$?
  nf=$(echo "$out" | grep -c '^FAILED')
  props=$(echo "$out" | grep '^FAILED' | sed 's/^FAILED\[\([^]]*\)\].*/\1/' | tr ',' '\n' | sort -u | paste -sd,)
  own=no; echo ",$props," | grep -q ",$prop," && own=yes
  broken=$(echo "$out" | grep -c '^BROKEN')
  first=$(echo "$out" | grep -m1 '^FAILED' | cut -c1-220)
  { echo "$s: failed=$nf broken=$broken caught_by_props=[$props] own_property=$own pkgs=$pkgs"; echo "$out" | grep -E '^FAILED|^BROKEN' | cut -c1-260; echo "$out" | tail -1; } > /verif/seeded/_results/$s.$sfx
  echo "$s: failed=$nf broken=$broken props=[$props] own=$own :: $first"
done
git -C /repo worktree remove --force $WT
