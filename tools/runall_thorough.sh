#!/bin/bash
# Runs every claimed check's thorough command (no evidence rewrite) and prints one line each.
cd /verif
props=$(python3 -c "import json;print(' '.join(c['property_id'] for c in json.load(open('MANIFEST.json'))['checks']))")
[ -n "$1" ] && props="$@"
rc=0
for p in $props; do
  out=$(GOWP_NOEVIDENCE=1 bin/gowp check $p --tier thorough 2>&1); r=$?
  echo "$out" | grep -E "^FAILED|^BROKEN|^VACUOUS" | cut -c1-180
  echo "$out" | tail -2 | sed "s/^/[exit $r] /"
  [ $r -ne 0 ] && rc=1
done
exit $rc
