#!/bin/bash
# Applies each seeded property-breaking change to a scratch worktree of /repo's
# HEAD (never to /repo itself), runs the check of its property there
# (GOWP_REPO), records whether a VIOLATION is reported.
# usage: run_seeded.sh [seed-dir-names...]   (default: all of /verif/seeded)
cd /verif
WT=/tmp/seeded_wt
git -C /repo worktree remove --force $WT 2>/dev/null
git -C /repo worktree add --detach $WT HEAD -q || exit 2
seeds="$@"; [ -z "$seeds" ] && seeds=$(ls seeded | grep '^C[0-9][0-9]-')
mkdir -p /verif/seeded/_results
for s in $seeds; do
  prop=${s%%-*}
  git -C $WT checkout -q -- . ; git -C $WT clean -fdq
  if ! git -C $WT apply --check /verif/seeded/$s/patch.diff 2>/dev/null; then echo "$s: patch does not apply to the current tree" | tee /verif/seeded/_results/$s.txt; continue; fi
  git -C $WT apply /verif/seeded/$s/patch.diff
  out=$(GOWP_REPO=$WT GOWP_NOEVIDENCE=1 bin/gowp check $prop 2>&1); rc=$?
  nviol=$(echo "$out" | grep -c '^VIOLATION')
  first=$(echo "$out" | grep -m1 '^FAILED' | cut -c1-200)
  echo "$s: exit=$rc violations=$nviol $first" | tee /verif/seeded/_results/$s.txt
done
git -C /repo worktree remove --force $WT
