#!/bin/bash
# Applies each seeded property-breaking change to /repo, runs the check of its
# property (and optionally extra properties), records whether a VIOLATION is
# reported, and restores /repo.  /repo must be clean (contract files committed).
# usage: run_seeded.sh [seed-dir-names...]   (default: all of /verif/seeded)
cd /verif
if [ -n "$(git -C /repo status --porcelain)" ]; then echo "/repo has uncommitted changes; commit contract files first"; exit 2; fi
seeds="$@"; [ -z "$seeds" ] && seeds=$(ls seeded)
mkdir -p /verif/seeded/_results
for s in $seeds; do
  prop=${s%%-*}
  if ! git -C /repo apply --check seeded/$s/patch.diff 2>/dev/null; then echo "$s: patch does not apply to the current tree"; continue; fi
  git -C /repo apply seeded/$s/patch.diff
  out=$(bin/gowp check $prop 2>&1); rc=$?
  git -C /repo checkout -- . ; git -C /repo clean -fdq -e '*zz_verif_contracts.go'
  nviol=$(echo "$out" | grep -c '^VIOLATION')
  first=$(echo "$out" | grep -m1 '^FAILED' | cut -c1-200)
  echo "$s: exit=$rc violations=$nviol $first" | tee /verif/seeded/_results/$s.txt
done
